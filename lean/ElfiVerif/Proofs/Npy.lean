import ElfiVerif.Model.Npy
import Mathlib.Data.List.Basic
import Mathlib.Tactic.Linarith

/-! Specification vocabulary and proofs for C06 (statements are repeated in Props/C06.lean). -/
namespace ElfiVerif.Npy

def Op.flushLike : Op → Bool
  | .flush | .close | .reopen | .reopenN _ | .pickle => true
  | _ => false

/-- operations that are allowed on a closed store (everything else on a closed store is outside the
    property's histories) -/
def Op.okWhenClosed : Op → Bool
  | .close | .reopen | .reopenN _ | .pickle => true
  | _ => false

/-- well-formed histories: batches have exactly `b` rows; on a closed store only close / reopen /
    pickle are issued; `reopenN n` asks for at most the batches the file holds.  (Checked along the
    run of the current code.) -/
def opsOKFrom (b : Nat) : Store → Disk → List Op → Prop
  | _, _, [] => True
  | s, d, op :: ops =>
    (match op with
      | .set _ batch => batch.length = b
      | .reopenN n => n * b ≤ s.arr.rows
      | _ => True) ∧
    (s.arr.closed = true → op.okWhenClosed = true) ∧
    let r := s.step false d op
    opsOKFrom b r.2.2 (d.applyAll r.2.1) ops

def OpsOK (b : Nat) (ops : List Op) : Prop := opsOKFrom b { b := b } Disk.empty ops

/-- state after a history (current code) -/
def storeAfter (b : Nat) (ops : List Op) : Store := (runOps false { b := b } Disk.empty ops).2.1
def diskAfter (b : Nat) (ops : List Op) : Disk := (runOps false { b := b } Disk.empty ops).2.2

/-- the reference semantics run along a history; a rejected operation leaves the sequence unchanged.
    (`init` is taken from the store object: "has ever been written".) -/
def specRun : Store → Disk → Spec → List Op → List (Option Err × Spec)
  | _, _, _, [] => []
  | s, d, sp, op :: ops =>
    let r := s.step false d op
    match specStep sp s.arr.initialized op with
    | .error e => (some e, sp) :: specRun r.2.2 (d.applyAll r.2.1) sp ops
    | .ok sp' => (none, sp') :: specRun r.2.2 (d.applyAll r.2.1) sp' ops

/-- the in-memory sequence after a history -/
def specAfter (b : Nat) (ops : List Op) : Spec :=
  ((specRun { b := b } Disk.empty {} ops).getLast?.map (·.2)).getD {}

/-- what the model store reports after each operation -/
def reportRun (b : Nat) : Store → Disk → List Op → List (Option Err × List (List Row))
  | _, _, [] => []
  | s, d, op :: ops =>
    let r := s.step false d op
    let d' := d.applyAll r.2.1
    (r.1, r.2.2.content d') :: reportRun b r.2.2 d' ops

/-- refinement: after every operation the store rejects iff the in-memory semantics rejects, and it
    reports (`len`, batches read back) exactly the available batches of the in-memory sequence. -/
def Refines (b : Nat) (ops : List Op) : Prop :=
  let rep := reportRun b { b := b } Disk.empty ops
  let spec := specRun { b := b } Disk.empty {} ops
  rep.length = spec.length ∧
  ∀ i (h₁ : i < rep.length) (h₂ : i < spec.length),
    ((rep[i]'h₁).1.isSome = (spec[i]'h₂).1.isSome) ∧ (rep[i]'h₁).2 = (spec[i]'h₂).2.avail

/-- `ops₁` ends with a successful flush-like operation and the store is initialised afterwards -/
def FlushedAfter (b : Nat) (ops₁ : List Op) : Prop :=
  ∃ pre op, ops₁ = pre ++ [op] ∧ op.flushLike = true ∧
    ((storeAfter b pre).step false (diskAfter b pre) op).1 = none ∧
    (storeAfter b ops₁).arr.initialized = true

/-- all low-level steps issued by `ops₂` when run after `ops₁` -/
def stepsOf (b : Nat) (ops₁ ops₂ : List Op) : List Step :=
  ((runOps false (storeAfter b ops₁) (diskAfter b ops₁) ops₂).1.map (·.2)).flatten

/-- number of operations of `ops₂` that have begun once `k` steps were issued: the least `m` such that
    the first `m` operations issue at least `k` steps (0 for k = 0) -/
def opsBegun (b : Nat) (ops₁ ops₂ : List Op) (k : Nat) : Nat :=
  let lens := (runOps false (storeAfter b ops₁) (diskAfter b ops₁) ops₂).1.map (·.2.length)
  let rec go (ls : List Nat) (acc m : Nat) : Nat :=
    if k ≤ acc then m else
    match ls with
    | [] => m
    | l :: rest => go rest (acc + l) (m + 1)
  go lens 0 0

/-! ## Helper lemmas -/

theorem padTo_of_le (l : List Row) (n : Nat) (h : n ≤ l.length) : padTo l n = l := by
  simp [padTo, Nat.sub_eq_zero_of_le h]

theorem writeAt_end (l rows : List Row) : writeAt l l.length rows = l ++ rows := by
  simp [writeAt, padTo]

theorem writeAt_mid (A X C Y : List Row) (h : X.length = Y.length) :
    writeAt (A ++ X ++ C) A.length Y = A ++ Y ++ C := by
  have h1 : padTo (A ++ X ++ C) A.length = A ++ X ++ C := padTo_of_le _ _ (by simp)
  rw [writeAt, h1, ← h, List.append_assoc A X C, List.take_left' rfl, ← List.length_append,
    ← List.append_assoc, List.drop_left' rfl]

theorem flatten_length_eq (b : Nat) (l : List (List Row)) (h : ∀ x ∈ l, x.length = b) :
    l.flatten.length = l.length * b := by
  induction l with
  | nil => simp
  | cons x xs ih =>
    simp only [List.flatten_cons, List.length_append, List.length_cons]
    rw [ih (fun y hy => h y (List.mem_cons_of_mem _ hy)), h x List.mem_cons_self, Nat.succ_mul]
    omega

theorem flatten_take_blocks (b : Nat) (l : List (List Row)) (h : ∀ x ∈ l, x.length = b) (n : Nat) :
    l.flatten.take (n * b) = (l.take n).flatten := by
  induction l generalizing n with
  | nil => simp
  | cons x xs ih =>
    cases n with
    | zero => simp
    | succ n =>
      have hx : x.length = b := h x List.mem_cons_self
      have : (n + 1) * b = x.length + n * b := by rw [hx, Nat.succ_mul]; omega
      rw [List.flatten_cons, this, List.take_length_add_append, List.take_succ_cons, List.flatten_cons,
        ih (fun y hy => h y (List.mem_cons_of_mem _ hy))]

theorem flatten_drop_blocks (b : Nat) (l : List (List Row)) (h : ∀ x ∈ l, x.length = b) (n : Nat) :
    l.flatten.drop (n * b) = (l.drop n).flatten := by
  induction l generalizing n with
  | nil => simp
  | cons x xs ih =>
    cases n with
    | zero => simp
    | succ n =>
      have hx : x.length = b := h x List.mem_cons_self
      have : (n + 1) * b = x.length + n * b := by rw [hx, Nat.succ_mul]; omega
      rw [List.flatten_cons, this, List.drop_length_add_append, List.drop_succ_cons,
        ih (fun y hy => h y (List.mem_cons_of_mem _ hy))]

theorem flatten_block (b : Nat) (l : List (List Row)) (h : ∀ x ∈ l, x.length = b) (i : Nat)
    (hi : i < l.length) : (l.flatten.drop (i * b)).take b = l[i] := by
  rw [flatten_drop_blocks b l h, List.drop_eq_getElem_cons hi, List.flatten_cons]
  have : l[i].length = b := h _ (List.getElem_mem hi)
  rw [← this, List.take_left']
  rfl

theorem flatten_set_block (b : Nat) (l : List (List Row)) (h : ∀ x ∈ l, x.length = b) (i : Nat)
    (hi : i < l.length) (batch : List Row) (hbatch : batch.length = b) :
    writeAt l.flatten (i * b) batch = (l.set i batch).flatten := by
  have h1 : l = l.take i ++ l[i] :: l.drop (i + 1) := by simp
  have h2 : l.set i batch = l.take i ++ batch :: l.drop (i + 1) := by
    simp [List.set_eq_take_append_cons_drop, hi]
  have h3 : ((l.take i).flatten).length = i * b := by
    rw [flatten_length_eq b _ (fun x hx => h x (List.mem_of_mem_take hx))]
    simp [Nat.min_eq_left (Nat.le_of_lt hi)]
  have h4 : l[i].length = batch.length := by rw [hbatch]; exact h _ (List.getElem_mem hi)
  rw [h2]
  conv_lhs => rw [h1]
  simp only [List.flatten_append, List.flatten_cons]
  rw [← h3, ← List.append_assoc, ← List.append_assoc, writeAt_mid _ _ _ _ h4]


structure Inv (b : Nat) (s : Store) (d : Disk) (sp : Spec) : Prop where
  hb : s.b = b
  hlen : ∀ x ∈ sp.all, x.length = b
  hav : sp.avail.length = s.nBatches
  hrows : s.arr.rows = sp.all.length * b
  hunin : s.arr.initialized = false →
    sp.all = [] ∧ d.hdr = none ∧ d.data = [] ∧ s.arr.pending = false ∧ s.arr.closed = false
  hinit : s.arr.initialized = true →
    d.data = sp.rows ∧ ∃ h, d.hdr = some h ∧ h ≤ s.arr.rows ∧ (s.arr.pending = false → h = s.arr.rows)
  hclosed : s.arr.closed = true → s.arr.pending = false

theorem Inv.mk_init (b rows h nB : Nat) (pending mm closed : Bool) (avail hidden : List (List Row))
    (hlen : ∀ x ∈ avail ++ hidden, x.length = b) (hav : avail.length = nB)
    (hrows : rows = (avail ++ hidden).length * b) (hle : h ≤ rows) (hp : pending = false → h = rows)
    (hcl : closed = true → pending = false) :
    Inv b ⟨⟨true, rows, pending, mm, closed⟩, b, nB⟩ ⟨some h, (avail ++ hidden).flatten⟩
      ⟨avail, hidden⟩ :=
  ⟨rfl, hlen, hav, hrows, by simp, fun _ => ⟨rfl, h, rfl, hle, hp⟩, hcl⟩

theorem npLoad_some (h : Nat) (data : List Row) (hle : h ≤ data.length) :
    npLoad ⟨some h, data⟩ = some (data.take h) := by
  simp [npLoad, hle]

def opOK (b : Nat) (s : Store) : Op → Prop
  | .set _ batch => batch.length = b
  | .reopenN n => n * b ≤ s.arr.rows
  | _ => True

def specNext (sp : Spec) (init : Bool) (op : Op) : Spec :=
  match specStep sp init op with
  | .ok sp' => sp'
  | .error _ => sp

def specErr (sp : Spec) (init : Bool) (op : Op) : Option Err :=
  match specStep sp init op with
  | .ok _ => none
  | .error e => some e


def LoadsIn (d : Disk) (R₀ A B : List Row) : Prop :=
  npLoad d = some R₀ ∨ npLoad d = some A ∨ npLoad d = some B

def CrashOK (d : Disk) (st : List Step) (R₀ A B : List Row) : Prop :=
  ∀ k, LoadsIn (d.applyAll (st.take k)) R₀ A B

theorem crashOK_nil (d : Disk) (R₀ A B : List Row) :
    CrashOK d [] R₀ A B ↔ LoadsIn d R₀ A B := by
  simp [CrashOK, Disk.applyAll]

theorem crashOK_cons (d : Disk) (x : Step) (st : List Step) (R₀ A B : List Row) :
    CrashOK d (x :: st) R₀ A B ↔ LoadsIn d R₀ A B ∧ CrashOK (d.apply x) st R₀ A B := by
  constructor
  · intro h
    exact ⟨by simpa [Disk.applyAll] using h 0, fun k => by simpa [Disk.applyAll] using h (k + 1)⟩
  · rintro ⟨h0, h1⟩ k
    cases k with
    | zero => simpa [Disk.applyAll] using h0
    | succ k => simpa [Disk.applyAll] using h1 k

structure StepOK (b : Nat) (s : Store) (d : Disk) (sp : Spec) (op : Op) : Prop where
  inv : Inv b (s.step false d op).2.2 (d.applyAll (s.step false d op).2.1)
    (specNext sp s.arr.initialized op)
  err : (s.step false d op).1.isSome = (specErr sp s.arr.initialized op).isSome
  fl : op.flushLike = true → (s.step false d op).1 = none →
    (s.step false d op).2.2.arr.pending = false
  crash : ∀ R₀, npLoad d = some R₀ →
    CrashOK d (s.step false d op).2.1 R₀ sp.rows (specNext sp s.arr.initialized op).rows

theorem StepOK.of_eq {b : Nat} {s : Store} {d : Disk} {sp : Spec} {op : Op}
    (e : Option Err) (st : List Step) (s' : Store) (sp' : Spec)
    (hstep : s.step false d op = (e, st, s'))
    (hspec : specNext sp s.arr.initialized op = sp')
    (herr : e.isSome = (specErr sp s.arr.initialized op).isSome)
    (inv : Inv b s' (d.applyAll st) sp')
    (fl : op.flushLike = true → e = none → s'.arr.pending = false)
    (crash : ∀ R₀, npLoad d = some R₀ → CrashOK d st R₀ sp.rows sp'.rows) : StepOK b s d sp op := by
  constructor
  · rw [hstep, hspec]; exact inv
  · rw [hstep]; exact herr
  · rw [hstep]; exact fl
  · rw [hstep, hspec]; exact crash

theorem StepOK.of_reject {b : Nat} {s : Store} {d : Disk} {sp : Spec} {op : Op} (hI : Inv b s d sp)
    (e e' : Err)
    (hstep : s.step false d op = (some e, [], s))
    (hspec : specStep sp s.arr.initialized op = .error e') : StepOK b s d sp op := by
  refine StepOK.of_eq (some e) [] s sp hstep ?_ ?_ ?_ ?_ ?_
  · simp [specNext, hspec]
  · simp [specErr, hspec]
  · simpa [Disk.applyAll] using hI
  · simp
  · intro R₀ h
    simp [crashOK_nil, LoadsIn, h]

/-- the steps of an in-place overwrite -/
def owSteps (rows : Nat) (pending mm : Bool) (pos : Nat) (batch : List Row) : List Step :=
  (if pending then [.hdr rows, .sync] else []) ++ (if mm then [] else [.mmOpen rows]) ++
    [.mmStore pos batch]

theorem setRows_eq (rows : Nat) (pending mm : Bool) (pos : Nat) (batch : List Row) :
    Arr.setRows ⟨true, rows, pending, mm, false⟩ pos batch =
      .ok (owSteps rows pending mm pos batch, ⟨true, rows, false, true, false⟩) := by
  cases pending <;> cases mm <;> rfl

theorem overwrite_disk (b : Nat) (all : List (List Row)) (hall : ∀ x ∈ all, x.length = b)
    (i : Nat) (hi : i < all.length) (batch : List Row) (hbatch : batch.length = b)
    (rows h : Nat) (hrows : rows = all.length * b) (pending mm : Bool) (hle : h ≤ rows)
    (hp : pending = false → h = rows) :
    (Disk.mk (some h) all.flatten).applyAll (owSteps rows pending mm (i * b) batch) =
      ⟨some rows, (all.set i batch).flatten⟩ ∧
    CrashOK (Disk.mk (some h) all.flatten) (owSteps rows pending mm (i * b) batch)
      (all.flatten.take h) all.flatten (all.set i batch).flatten := by
  have hl : all.flatten.length = rows := by rw [hrows]; exact flatten_length_eq b all hall
  have hl' : (all.set i batch).flatten.length = rows := by
    rw [hrows, flatten_length_eq b]
    · simp
    · intro x hx
      rcases List.mem_or_eq_of_mem_set hx with h | h
      · exact hall x h
      · rw [h, hbatch]
  have hw := flatten_set_block b all hall i hi batch hbatch
  have hpad : padTo all.flatten rows = all.flatten := padTo_of_le _ _ (by omega)
  have ht : List.take rows all.flatten = all.flatten := List.take_of_length_le (by omega)
  have ht' : List.take rows (all.set i batch).flatten = (all.set i batch).flatten :=
    List.take_of_length_le (by omega)
  cases pending <;> cases mm <;> simp at hp <;> try subst hp
  all_goals
    simp [owSteps, Disk.applyAll, Disk.apply, crashOK_cons, crashOK_nil, LoadsIn, npLoad, hw, hpad, hl,
      hl', hle, ht, ht']

theorem all_len_set (b : Nat) (all : List (List Row)) (hall : ∀ x ∈ all, x.length = b) (i : Nat)
    (batch : List Row) (hbatch : batch.length = b) : ∀ x ∈ all.set i batch, x.length = b := by
  intro x hx
  rcases List.mem_or_eq_of_mem_set hx with hx | hx
  · exact hall x hx
  · rw [hx, hbatch]

theorem append_eq (rows : Nat) (pending mm : Bool) (batch : List Row) :
    Arr.append ⟨true, rows, pending, mm, false⟩ batch =
      .ok ([.data rows batch], ⟨true, rows + batch.length, true, false, false⟩) := rfl

theorem step_set (b : Nat) (hb : 0 < b) (s : Store) (d : Disk) (sp : Spec) (hI : Inv b s d sp)
    (hc : s.arr.closed = false) (i : Nat) (batch : List Row) (hbatch : batch.length = b)
    (hin : s.arr.initialized = true) : StepOK b s d sp (.set i batch) := by
  have hI' := hI
  obtain ⟨⟨init, rows, pending, mm, closed⟩, b', nB⟩ := s
  obtain ⟨hdr, data⟩ := d
  obtain ⟨avail, hidden⟩ := sp
  obtain ⟨h1, h2, h3, h4, h5, h6, h7⟩ := hI
  simp only [Spec.all, Spec.rows] at h1 h2 h3 h4 h5 h6 h7 hc hin
  subst hc h1 hin
  obtain ⟨hdata, h, hh, hle, hp⟩ := h6 rfl
  subst hh hdata h3
  clear h5 h7 h6
  have hl : (avail ++ hidden).flatten.length = rows := by
    rw [h4]; exact flatten_length_eq b' _ h2
  rcases Nat.lt_trichotomy i avail.length with hi | hi | hi
  · -- overwrite of an available batch
    have hne : ¬ i = avail.length := by omega
    have hngt : ¬ avail.length < i := by omega
    have hle1 : ¬ rows < (i + 1) * b' := by
      rw [h4, Nat.not_lt]; exact Nat.mul_le_mul_right _ (by simp; omega)
    have hi' : i < (avail ++ hidden).length := by simp; omega
    have hset : (avail ++ hidden).set i batch = avail.set i batch ++ hidden := by
      simp [hi]
    obtain ⟨hd1, hd2⟩ := overwrite_disk b' (avail ++ hidden) h2 i hi' batch hbatch rows h h4 pending mm hle hp
    refine StepOK.of_eq none (owSteps rows pending mm (i * b') batch)
      ⟨⟨true, rows, false, true, false⟩, b', avail.length⟩
      ⟨avail.set i batch, hidden⟩ ?_ ?_ ?_ ?_ ?_ ?_
    · simp only [Store.step, setRows_eq]
      simp [hne, hngt, hle1]
    · simp [specNext, specStep, hi]
    · simp [specErr, specStep, hi]
    · rw [hd1, hset]
      refine Inv.mk_init b' rows rows _ false true false _ _ ?_ (by simp) ?_ (le_refl _) (fun _ => rfl)
        (by simp)
      · rw [← hset]; exact all_len_set b' _ h2 i batch hbatch
      · rw [← hset, List.length_set]; exact h4
    · simp
    · intro R₀ hR
      rw [npLoad_some _ _ (by omega)] at hR
      cases hR
      simpa [Spec.rows, Spec.all, hset] using hd2
  · subst hi
    cases hidden with
    | nil =>
      -- append
      simp only [List.append_nil] at h2 h4 hl hI' ⊢
      have hw : writeAt avail.flatten rows batch = avail.flatten ++ batch := by
        rw [← hl]; exact writeAt_end _ _
      refine StepOK.of_eq none [.data rows batch]
        ⟨⟨true, rows + batch.length, true, false, false⟩, b', avail.length + 1⟩
        ⟨avail ++ [batch], []⟩ ?_ ?_ ?_ ?_ ?_ ?_
      · simp only [Store.step, append_eq]
        simp [h4]
      · simp [specNext, specStep]
      · simp [specErr, specStep]
      · have : (Disk.mk (some h) avail.flatten).applyAll [.data rows batch] =
            ⟨some h, ((avail ++ [batch]) ++ []).flatten⟩ := by
          simp [Disk.applyAll, Disk.apply, hw]
        rw [this]
        refine Inv.mk_init b' _ h _ true false false _ _ ?_ (by simp) ?_ (by omega) (by simp) (by simp)
        · intro x hx
          simp only [List.append_nil, List.mem_append, List.mem_singleton] at hx
          rcases hx with hx | hx
          · exact h2 x hx
          · rw [hx, hbatch]
        · simp [hbatch, h4, Nat.succ_mul]
      · simp [Op.flushLike]
      · intro R₀ hR
        rw [npLoad_some _ _ (by omega)] at hR
        cases hR
        simp only [crashOK_cons, crashOK_nil, LoadsIn, Disk.apply, hw]
        refine ⟨Or.inl (npLoad_some _ _ (by omega)), Or.inl ?_⟩
        rw [npLoad_some _ _ (by rw [List.length_append]; omega),
          List.take_append_of_le_length (by omega)]
    | cons hd tl =>
      -- overwrite of the first hidden batch
      have hlt : avail.length * b' < rows := by
        rw [h4]; exact Nat.mul_lt_mul_of_pos_right (by simp) hb
      have hne : ¬ avail.length * b' = rows := by omega
      have hle1 : ¬ rows < (avail.length + 1) * b' := by
        rw [h4, Nat.not_lt]; exact Nat.mul_le_mul_right _ (by simp)
      have hi' : avail.length < (avail ++ hd :: tl).length := by simp
      have hset : (avail ++ hd :: tl).set avail.length batch = (avail ++ [batch]) ++ tl := by
        simp
      obtain ⟨hd1, hd2⟩ := overwrite_disk b' (avail ++ hd :: tl) h2 avail.length hi' batch hbatch rows h h4
        pending mm hle hp
      refine StepOK.of_eq none (owSteps rows pending mm (avail.length * b') batch)
        ⟨⟨true, rows, false, true, false⟩, b', avail.length + 1⟩
        ⟨avail ++ [batch], tl⟩ ?_ ?_ ?_ ?_ ?_ ?_
      · simp only [Store.step, setRows_eq]
        simp [hne, hle1]
      · simp [specNext, specStep]
      · simp [specErr, specStep]
      · rw [hd1, hset]
        refine Inv.mk_init b' rows rows _ false true false _ _ ?_ (by simp) ?_ (le_refl _) (fun _ => rfl)
          (by simp)
        · rw [← hset]; exact all_len_set b' _ h2 _ batch hbatch
        · rw [← hset, List.length_set]; exact h4
      · simp
      · intro R₀ hR
        rw [npLoad_some _ _ (by omega)] at hR
        cases hR
        simpa [Spec.rows, Spec.all, hset] using hd2
  · -- index error
    have hne : ¬ i = avail.length := by omega
    exact StepOK.of_reject hI' .indexError .indexError (by simp [Store.step, hne, hi])
      (by simp [specStep, hne]; omega)

theorem Inv.mk_init' (b rows h nB : Nat) (pending mm closed : Bool) (avail hidden : List (List Row))
    (data : List Row) (hdata : data = (avail ++ hidden).flatten)
    (hlen : ∀ x ∈ avail ++ hidden, x.length = b) (hav : avail.length = nB)
    (hrows : rows = (avail ++ hidden).length * b) (hle : h ≤ rows) (hp : pending = false → h = rows)
    (hcl : closed = true → pending = false) :
    Inv b ⟨⟨true, rows, pending, mm, closed⟩, b, nB⟩ ⟨some h, data⟩ ⟨avail, hidden⟩ := by
  subst hdata
  exact Inv.mk_init b rows h nB pending mm closed avail hidden hlen hav hrows hle hp hcl

theorem truncate_eq (rows : Nat) (pending mm : Bool) (len : Nat) :
    Arr.truncate ⟨true, rows, pending, mm, false⟩ len =
      .ok ([.hdr len, .sync, .trunc len], ⟨true, len, false, false, false⟩) := rfl

theorem trunc_disk (b : Nat) (all : List (List Row)) (hall : ∀ x ∈ all, x.length = b)
    (n : Nat) (hn : n ≤ all.length) (len : Nat) (hlen : len = n * b)
    (rows h : Nat) (hrows : rows = all.length * b) (hle : h ≤ rows) :
    (Disk.mk (some h) all.flatten).applyAll [.hdr len, .sync, .trunc len] =
      ⟨some len, (all.take n).flatten⟩ ∧
    CrashOK (Disk.mk (some h) all.flatten) [.hdr len, .sync, .trunc len]
      (all.flatten.take h) all.flatten (all.take n).flatten := by
  have hl : all.flatten.length = rows := by rw [hrows]; exact flatten_length_eq b all hall
  have hlr : len ≤ rows := by rw [hlen, hrows]; exact Nat.mul_le_mul_right _ hn
  have ht : all.flatten.take len = (all.take n).flatten := by
    rw [hlen]; exact flatten_take_blocks b all hall n
  have hpad : padTo all.flatten len = all.flatten := padTo_of_le _ _ (by omega)
  have hl2 : (all.take n).flatten.length = len := by rw [← ht, List.length_take]; omega
  have ht2 : List.take len (all.take n).flatten = (all.take n).flatten :=
    List.take_of_length_le (by omega)
  simp [Disk.applyAll, Disk.apply, crashOK_cons, crashOK_nil, LoadsIn, npLoad, hpad, hl, hle, hlr, ht,
    hl2, ht2]

/-- the steps of `flush` -/
def hfSteps (rows : Nat) (pending : Bool) : List Step :=
  (if pending then [.hdr rows] else []) ++ [.sync]

/-- the steps of `close` (and of pickling) -/
def clSteps (rows : Nat) (pending closed : Bool) : List Step :=
  if closed then [] else hfSteps rows pending

theorem flush_eq (rows : Nat) (pending mm : Bool) :
    Arr.flush ⟨true, rows, pending, mm, false⟩ =
      .ok (hfSteps rows pending, ⟨true, rows, false, mm, false⟩) := by
  cases pending <;> rfl

theorem close_eq (rows : Nat) (pending mm closed : Bool) (hcp : closed = true → pending = false) :
    Arr.close ⟨true, rows, pending, mm, closed⟩ =
      (clSteps rows pending closed, ⟨true, rows, false, closed && mm, true⟩) := by
  cases pending <;> cases closed <;> cases mm <;> simp at hcp <;> rfl

theorem cl_disk (rows h : Nat) (pending closed : Bool) (data : List Row) (hl : data.length = rows)
    (hle : h ≤ rows) (hp : pending = false → h = rows) (hcp : closed = true → pending = false) :
    (Disk.mk (some h) data).applyAll (clSteps rows pending closed) = ⟨some rows, data⟩ ∧
    ∀ X, CrashOK (Disk.mk (some h) data) (clSteps rows pending closed) (data.take h) data X := by
  have ht : List.take rows data = data := List.take_of_length_le (by omega)
  cases pending <;> cases closed <;> simp at hp hcp <;> try subst hp
  all_goals
    simp [clSteps, hfSteps, Disk.applyAll, Disk.apply, crashOK_cons, crashOK_nil, LoadsIn, npLoad, hl, hle,
      ht]

theorem step_del (b : Nat) (rows h : Nat) (pending mm : Bool) (avail hidden : List (List Row))
    (h2 : ∀ x ∈ avail ++ hidden, x.length = b) (h4 : rows = (avail ++ hidden).length * b)
    (hle : h ≤ rows) (hp : pending = false → h = rows) (i : Nat) :
    StepOK b ⟨⟨true, rows, pending, mm, false⟩, b, avail.length⟩ ⟨some h, (avail ++ hidden).flatten⟩
      ⟨avail, hidden⟩ (.del i) := by
  have hI := Inv.mk_init b rows h _ pending mm false avail hidden h2 rfl h4 hle hp (by simp)
  have hl : (avail ++ hidden).flatten.length = rows := by rw [h4]; exact flatten_length_eq b _ h2
  by_cases hi : i + 1 = avail.length
  · have hge : ¬ avail.length ≤ i := by omega
    have hi2 : i = avail.length - 1 := by omega
    obtain ⟨hd1, hd2⟩ := trunc_disk b (avail ++ hidden) h2 i (by simp; omega) (i * b) rfl rows h h4 hle
    have htk : (avail ++ hidden).take i = avail.dropLast := by
      rw [List.take_append_of_le_length (by omega), List.dropLast_eq_take, hi2]
    rw [htk] at hd1 hd2
    refine StepOK.of_eq none [.hdr (i * b), .sync, .trunc (i * b)]
      ⟨⟨true, i * b, false, false, false⟩, b, avail.length - 1⟩ ⟨avail.dropLast, []⟩ ?_ ?_ ?_ ?_ ?_ ?_
    · simp only [Store.step, truncate_eq]
      simp [hge, ← hi2]
    · simp [specNext, specStep, hi]
    · simp [specErr, specStep, hi]
    · rw [hd1]
      refine Inv.mk_init' b _ _ _ false false false _ _ _ (by simp) ?_ (by simp) ?_ (le_refl _)
        (fun _ => rfl) (by simp)
      · intro x hx
        simp only [List.append_nil] at hx
        exact h2 x (List.mem_append_left _ (List.dropLast_subset _ hx))
      · simp [← hi2]
    · simp
    · intro R₀ hR
      rw [npLoad_some _ _ (by omega)] at hR
      cases hR
      simpa [Spec.rows, Spec.all] using hd2
  · refine StepOK.of_reject hI .indexError .indexError ?_ (by simp [specStep, hi])
    by_cases hge : avail.length ≤ i
    · simp [Store.step, hge]
    · have : ¬ i = avail.length - 1 := by omega
      simp [Store.step, hge, this]

theorem step_clear (b : Nat) (rows h : Nat) (pending mm : Bool) (avail hidden : List (List Row))
    (h2 : ∀ x ∈ avail ++ hidden, x.length = b) (h4 : rows = (avail ++ hidden).length * b)
    (hle : h ≤ rows) :
    StepOK b ⟨⟨true, rows, pending, mm, false⟩, b, avail.length⟩ ⟨some h, (avail ++ hidden).flatten⟩
      ⟨avail, hidden⟩ .clear := by
  have hl : (avail ++ hidden).flatten.length = rows := by rw [h4]; exact flatten_length_eq b _ h2
  obtain ⟨hd1, hd2⟩ := trunc_disk b (avail ++ hidden) h2 0 (by simp) 0 (by simp) rows h h4 hle
  refine StepOK.of_eq none [.hdr 0, .sync, .trunc 0]
    ⟨⟨true, 0, false, false, false⟩, b, 0⟩ ⟨[], []⟩ ?_ ?_ ?_ ?_ ?_ ?_
  · simp only [Store.step, truncate_eq]
    simp
  · simp [specNext, specStep]
  · simp [specErr, specStep]
  · rw [hd1]
    exact Inv.mk_init' b _ _ _ false false false _ _ _ (by simp) (by simp) (by simp) (by simp) (le_refl _)
      (fun _ => rfl) (by simp)
  · simp
  · intro R₀ hR
    rw [npLoad_some _ _ (by omega)] at hR
    cases hR
    simpa [Spec.rows, Spec.all] using hd2

theorem step_flush (b : Nat) (rows h : Nat) (pending mm : Bool) (avail hidden : List (List Row))
    (h2 : ∀ x ∈ avail ++ hidden, x.length = b) (h4 : rows = (avail ++ hidden).length * b)
    (hle : h ≤ rows) (hp : pending = false → h = rows) :
    StepOK b ⟨⟨true, rows, pending, mm, false⟩, b, avail.length⟩ ⟨some h, (avail ++ hidden).flatten⟩
      ⟨avail, hidden⟩ .flush := by
  have hl : (avail ++ hidden).flatten.length = rows := by rw [h4]; exact flatten_length_eq b _ h2
  obtain ⟨hd1, hd2⟩ := cl_disk rows h pending false _ hl hle hp (by simp)
  simp only [clSteps, Bool.false_eq_true, if_false] at hd1 hd2
  refine StepOK.of_eq none (hfSteps rows pending)
    ⟨⟨true, rows, false, mm, false⟩, b, avail.length⟩ ⟨avail, hidden⟩ ?_ ?_ ?_ ?_ ?_ ?_
  · simp only [Store.step, flush_eq]
  · simp [specNext, specStep]
  · simp [specErr, specStep]
  · rw [hd1]
    exact Inv.mk_init b _ _ _ false mm false _ _ h2 rfl h4 (le_refl _) (fun _ => rfl) (by simp)
  · simp
  · intro R₀ hR
    rw [npLoad_some _ _ (by omega)] at hR
    cases hR
    exact hd2 _

theorem step_close (b : Nat) (rows h : Nat) (pending mm closed : Bool) (avail hidden : List (List Row))
    (h2 : ∀ x ∈ avail ++ hidden, x.length = b) (h4 : rows = (avail ++ hidden).length * b)
    (hle : h ≤ rows) (hp : pending = false → h = rows) (hcp : closed = true → pending = false) :
    StepOK b ⟨⟨true, rows, pending, mm, closed⟩, b, avail.length⟩ ⟨some h, (avail ++ hidden).flatten⟩
      ⟨avail, hidden⟩ .close := by
  have hl : (avail ++ hidden).flatten.length = rows := by rw [h4]; exact flatten_length_eq b _ h2
  obtain ⟨hd1, hd2⟩ := cl_disk rows h pending closed _ hl hle hp hcp
  refine StepOK.of_eq none (clSteps rows pending closed)
    ⟨⟨true, rows, false, closed && mm, true⟩, b, avail.length⟩ ⟨avail, hidden⟩ ?_ ?_ ?_ ?_ ?_ ?_
  · simp only [Store.step, close_eq _ _ _ _ hcp]
  · simp [specNext, specStep]
  · simp [specErr, specStep]
  · rw [hd1]
    exact Inv.mk_init b _ _ _ false _ true _ _ h2 rfl h4 (le_refl _) (fun _ => rfl) (by simp)
  · simp
  · intro R₀ hR
    rw [npLoad_some _ _ (by omega)] at hR
    cases hR
    exact hd2 _

theorem open_eq (rows : Nat) (data : List Row) :
    Arr.open ⟨some rows, data⟩ = .ok ⟨true, rows, false, false, false⟩ := rfl

theorem step_reopen (b : Nat) (hb : 0 < b) (rows h : Nat) (pending mm closed : Bool)
    (avail hidden : List (List Row))
    (h2 : ∀ x ∈ avail ++ hidden, x.length = b) (h4 : rows = (avail ++ hidden).length * b)
    (hle : h ≤ rows) (hp : pending = false → h = rows) (hcp : closed = true → pending = false) :
    StepOK b ⟨⟨true, rows, pending, mm, closed⟩, b, avail.length⟩ ⟨some h, (avail ++ hidden).flatten⟩
      ⟨avail, hidden⟩ .reopen := by
  have hl : (avail ++ hidden).flatten.length = rows := by rw [h4]; exact flatten_length_eq b _ h2
  obtain ⟨hd1, hd2⟩ := cl_disk rows h pending closed _ hl hle hp hcp
  refine StepOK.of_eq none (clSteps rows pending closed)
    ⟨⟨true, rows, false, false, false⟩, b, (avail ++ hidden).length⟩ ⟨avail ++ hidden, []⟩
    ?_ ?_ ?_ ?_ ?_ ?_
  · simp only [Store.step, close_eq _ _ _ _ hcp, hd1, open_eq]
    rw [h4, Nat.mul_div_cancel _ hb]
  · simp [specNext, specStep, Spec.all]
  · simp [specErr, specStep]
  · rw [hd1]
    exact Inv.mk_init' b _ _ _ false _ false _ _ _ (by simp) (by simpa using h2) (by simp)
      (by simpa using h4) (le_refl _) (fun _ => rfl) (by simp)
  · simp
  · intro R₀ hR
    rw [npLoad_some _ _ (by omega)] at hR
    cases hR
    exact hd2 _

theorem step_reopenN (b : Nat) (hb : 0 < b) (rows h : Nat) (pending mm closed : Bool)
    (avail hidden : List (List Row))
    (h2 : ∀ x ∈ avail ++ hidden, x.length = b) (h4 : rows = (avail ++ hidden).length * b)
    (hle : h ≤ rows) (hp : pending = false → h = rows) (hcp : closed = true → pending = false)
    (n : Nat) (hn : n * b ≤ rows) :
    StepOK b ⟨⟨true, rows, pending, mm, closed⟩, b, avail.length⟩ ⟨some h, (avail ++ hidden).flatten⟩
      ⟨avail, hidden⟩ (.reopenN n) := by
  have hl : (avail ++ hidden).flatten.length = rows := by rw [h4]; exact flatten_length_eq b _ h2
  have hn' : n ≤ (avail ++ hidden).length := by
    rw [h4] at hn; exact Nat.le_of_mul_le_mul_right hn hb
  obtain ⟨hd1, hd2⟩ := cl_disk rows h pending closed _ hl hle hp hcp
  refine StepOK.of_eq none (clSteps rows pending closed)
    ⟨⟨true, rows, false, false, false⟩, b, n⟩ ⟨(avail ++ hidden).take n, (avail ++ hidden).drop n⟩
    ?_ ?_ ?_ ?_ ?_ ?_
  · simp only [Store.step, close_eq _ _ _ _ hcp, hd1, open_eq]
  · simp [specNext, specStep, Spec.all]
  · simp [specErr, specStep]
  · rw [hd1]
    exact Inv.mk_init' b _ _ _ false _ false _ _ _ (by rw [List.take_append_drop])
      (by rw [List.take_append_drop]; exact h2) (by rw [List.length_take]; omega)
      (by rw [List.take_append_drop]; exact h4) (le_refl _) (fun _ => rfl) (by simp)
  · simp
  · intro R₀ hR
    rw [npLoad_some _ _ (by omega)] at hR
    cases hR
    exact hd2 _

theorem pickle_eq (rows : Nat) (pending mm closed : Bool) :
    (if closed = true then
        (.ok ([], Arr.mk true rows pending mm closed) : Except Err (List Step × Arr))
      else (Arr.mk true rows pending mm closed).flush) =
      .ok (clSteps rows pending closed, ⟨true, rows, closed && pending, mm, closed⟩) := by
  cases pending <;> cases closed <;> rfl

theorem step_pickle (b : Nat) (rows h : Nat) (pending mm closed : Bool)
    (avail hidden : List (List Row))
    (h2 : ∀ x ∈ avail ++ hidden, x.length = b) (h4 : rows = (avail ++ hidden).length * b)
    (hle : h ≤ rows) (hp : pending = false → h = rows) (hcp : closed = true → pending = false) :
    StepOK b ⟨⟨true, rows, pending, mm, closed⟩, b, avail.length⟩ ⟨some h, (avail ++ hidden).flatten⟩
      ⟨avail, hidden⟩ .pickle := by
  have hl : (avail ++ hidden).flatten.length = rows := by rw [h4]; exact flatten_length_eq b _ h2
  obtain ⟨hd1, hd2⟩ := cl_disk rows h pending closed _ hl hle hp hcp
  refine StepOK.of_eq none (clSteps rows pending closed)
    ⟨⟨true, rows, false, false, false⟩, b, avail.length⟩ ⟨avail, hidden⟩
    ?_ ?_ ?_ ?_ ?_ ?_
  · simp only [Store.step, pickle_eq, hd1, open_eq]
  · simp [specNext, specStep]
  · simp [specErr, specStep]
  · rw [hd1]
    exact Inv.mk_init b _ _ _ false _ false _ _ h2 rfl h4 (le_refl _) (fun _ => rfl) (by simp)
  · simp
  · intro R₀ hR
    rw [npLoad_some _ _ (by omega)] at hR
    cases hR
    exact hd2 _

theorem Inv.mk_uninit (b : Nat) (mm : Bool) :
    Inv b ⟨⟨false, 0, false, mm, false⟩, b, 0⟩ ⟨none, []⟩ ⟨[], []⟩ :=
  ⟨rfl, by simp [Spec.all], rfl, by simp [Spec.all], by simp [Spec.all], by simp, by simp⟩

theorem step_uninit (b : Nat) (hb : 0 < b) (mm : Bool) (op : Op)
    (hop : opOK b ⟨⟨false, 0, false, mm, false⟩, b, 0⟩ op) :
    StepOK b ⟨⟨false, 0, false, mm, false⟩, b, 0⟩ ⟨none, []⟩ ⟨[], []⟩ op := by
  have hI := Inv.mk_uninit b mm
  have hcr : ∀ (st : List Step) (A B : List Row) (R₀ : List Row), npLoad ⟨none, []⟩ = some R₀ →
      CrashOK ⟨none, []⟩ st R₀ A B := by
    intro st A B R₀ hR
    simp [npLoad] at hR
  cases op with
  | set i batch =>
    cases i with
    | zero =>
      refine StepOK.of_eq none [.magic, .hdr 0, .data 0 batch]
        ⟨⟨true, 0 + batch.length, true, false, false⟩, b, 1⟩ ⟨[batch], []⟩ ?_ ?_ ?_ ?_ ?_ (hcr _ _ _)
      · simp [Store.step, Arr.append]
      · simp [specNext, specStep]
      · simp [specErr, specStep]
      · have : (Disk.mk none []).applyAll [.magic, .hdr 0, .data 0 batch] = ⟨some 0, batch⟩ := by
          simp [Disk.applyAll, Disk.apply, writeAt, padTo]
        rw [this]
        have hbl : batch.length = b := hop
        exact Inv.mk_init' b _ _ _ true false false _ _ _ (by simp) (by simpa using hbl) (by simp)
          (by simp [hbl]) (by omega) (by simp) (by simp)
      · simp [Op.flushLike]
    | succ i =>
      exact StepOK.of_reject hI .indexError .indexError (by simp [Store.step]) (by simp [specStep])
  | del i =>
    exact StepOK.of_reject hI .indexError .indexError (by simp [Store.step]) (by simp [specStep])
  | clear =>
    exact StepOK.of_reject hI .valueError .valueError (by simp [Store.step, Arr.truncate])
      (by simp [specStep])
  | flush =>
    refine StepOK.of_eq none [.sync] ⟨⟨false, 0, false, mm, false⟩, b, 0⟩ ⟨[], []⟩ ?_ ?_ ?_ ?_ ?_
      (hcr _ _ _)
    · simp [Store.step, Arr.flush, Arr.writeHeader]
    · simp [specNext, specStep]
    · simp [specErr, specStep]
    · simpa [Disk.applyAll, Disk.apply] using hI
    · simp
  | close =>
    refine StepOK.of_eq none [] ⟨⟨false, 0, false, mm, false⟩, b, 0⟩ ⟨[], []⟩ ?_ ?_ ?_ ?_ ?_
      (hcr _ _ _)
    · simp [Store.step, Arr.close]
    · simp [specNext, specStep]
    · simp [specErr, specStep]
    · simpa [Disk.applyAll, Disk.apply] using hI
    · simp
  | reopen =>
    refine StepOK.of_eq none [] ⟨⟨false, 0, false, false, false⟩, b, 0⟩ ⟨[], []⟩ ?_ ?_ ?_ ?_ ?_
      (hcr _ _ _)
    · simp [Store.step, Arr.close, Arr.open, Disk.applyAll]
    · simp [specNext, specStep, Spec.all]
    · simp [specErr, specStep]
    · simpa [Disk.applyAll] using Inv.mk_uninit b false
    · simp
  | reopenN n =>
    have hn : n = 0 := by
      have h : n * b ≤ 0 := hop
      rcases Nat.eq_zero_or_pos n with h0 | h0
      · exact h0
      · have := Nat.mul_pos h0 hb
        omega
    subst hn
    refine StepOK.of_eq none [] ⟨⟨false, 0, false, false, false⟩, b, 0⟩ ⟨[], []⟩ ?_ ?_ ?_ ?_ ?_
      (hcr _ _ _)
    · simp [Store.step, Arr.close, Arr.open, Disk.applyAll]
    · simp [specNext, specStep, Spec.all]
    · simp [specErr, specStep]
    · simpa [Disk.applyAll] using Inv.mk_uninit b false
    · simp
  | pickle =>
    refine StepOK.of_eq none [.sync] ⟨⟨false, 0, false, false, false⟩, b, 0⟩ ⟨[], []⟩
      ?_ ?_ ?_ ?_ ?_ (hcr _ _ _)
    · simp [Store.step, Arr.flush, Arr.writeHeader, Arr.open, Disk.applyAll, Disk.apply]
    · simp [specNext, specStep]
    · simp [specErr, specStep]
    · simpa [Disk.applyAll, Disk.apply] using Inv.mk_uninit b false
    · simp

theorem step_ok (b : Nat) (hb : 0 < b) (s : Store) (d : Disk) (sp : Spec) (hI : Inv b s d sp)
    (op : Op) (hop : opOK b s op) (hcl : s.arr.closed = true → op.okWhenClosed = true) :
    StepOK b s d sp op := by
  cases hin : s.arr.initialized with
  | false =>
    obtain ⟨⟨init, rows, pending, mm, closed⟩, b', nB⟩ := s
    obtain ⟨hdr, data⟩ := d
    obtain ⟨avail, hidden⟩ := sp
    obtain ⟨h1, h2, h3, h4, h5, h6, h7⟩ := hI
    simp only [Spec.all, Spec.rows] at h1 h2 h3 h4 h5 h6 h7 hin
    subst hin h1
    obtain ⟨ha, hh, hdt, hpe, hce⟩ := h5 rfl
    simp only [List.append_eq_nil_iff] at ha
    obtain ⟨ha1, ha2⟩ := ha
    subst ha1 ha2 hh hdt hpe hce
    simp only [List.length_nil, List.append_nil, Nat.zero_mul] at h3 h4
    subst h3 h4
    exact step_uninit b' hb mm op hop
  | true =>
    obtain ⟨⟨init, rows, pending, mm, closed⟩, b', nB⟩ := s
    obtain ⟨hdr, data⟩ := d
    obtain ⟨avail, hidden⟩ := sp
    obtain ⟨h1, h2, h3, h4, h5, h6, h7⟩ := hI
    simp only [Spec.all, Spec.rows] at h1 h2 h3 h4 h5 h6 h7 hin hcl
    subst hin h1
    obtain ⟨hdata, h, hh, hle, hp⟩ := h6 rfl
    subst hh hdata h3
    clear h5 h6
    have hcf : ∀ op : Op, op.okWhenClosed = false → (closed = true → op.okWhenClosed = true) →
        closed = false := by
      intro op h1 h2
      cases closed with
      | false => rfl
      | true => rw [h2 rfl] at h1; cases h1
    cases op with
    | set i batch =>
      have hc := hcf _ rfl hcl
      subst hc
      exact step_set b' hb _ _ _ (Inv.mk_init b' rows h _ pending mm false avail hidden h2 rfl h4 hle hp
        (by simp)) rfl i batch hop rfl
    | del i =>
      have hc := hcf _ rfl hcl
      subst hc
      exact step_del b' rows h pending mm avail hidden h2 h4 hle hp i
    | clear =>
      have hc := hcf _ rfl hcl
      subst hc
      exact step_clear b' rows h pending mm avail hidden h2 h4 hle
    | flush =>
      have hc := hcf _ rfl hcl
      subst hc
      exact step_flush b' rows h pending mm avail hidden h2 h4 hle hp
    | close => exact step_close b' rows h pending mm closed avail hidden h2 h4 hle hp h7
    | reopen => exact step_reopen b' hb rows h pending mm closed avail hidden h2 h4 hle hp h7
    | reopenN n => exact step_reopenN b' hb rows h pending mm closed avail hidden h2 h4 hle hp h7 n hop
    | pickle => exact step_pickle b' rows h pending mm closed avail hidden h2 h4 hle hp h7

/-! ### Lifting along histories -/

def runS : Store → Disk → List Op → Store
  | s, _, [] => s
  | s, d, op :: ops => runS (s.step false d op).2.2 (d.applyAll (s.step false d op).2.1) ops

def runD : Store → Disk → List Op → Disk
  | _, d, [] => d
  | s, d, op :: ops => runD (s.step false d op).2.2 (d.applyAll (s.step false d op).2.1) ops

def stepsFrom : Store → Disk → List Op → List (List Step)
  | _, _, [] => []
  | s, d, op :: ops =>
    (s.step false d op).2.1 :: stepsFrom (s.step false d op).2.2 (d.applyAll (s.step false d op).2.1) ops

def specFinal : Store → Disk → Spec → List Op → Spec
  | _, _, sp, [] => sp
  | s, d, sp, op :: ops =>
    specFinal (s.step false d op).2.2 (d.applyAll (s.step false d op).2.1)
      (specNext sp s.arr.initialized op) ops

theorem runOps_store (s : Store) (d : Disk) (ops : List Op) :
    (runOps false s d ops).2.1 = runS s d ops := by
  induction ops generalizing s d with
  | nil => rfl
  | cons op ops ih => simp only [runOps, runS]; exact ih _ _

theorem runOps_disk (s : Store) (d : Disk) (ops : List Op) :
    (runOps false s d ops).2.2 = runD s d ops := by
  induction ops generalizing s d with
  | nil => rfl
  | cons op ops ih => simp only [runOps, runD]; exact ih _ _

theorem runOps_steps (s : Store) (d : Disk) (ops : List Op) :
    (runOps false s d ops).1.map (·.2) = stepsFrom s d ops := by
  induction ops generalizing s d with
  | nil => rfl
  | cons op ops ih => simp only [runOps, stepsFrom, List.map_cons]; rw [ih]

theorem runOps_lens (s : Store) (d : Disk) (ops : List Op) :
    (runOps false s d ops).1.map (·.2.length) = (stepsFrom s d ops).map List.length := by
  rw [← runOps_steps, List.map_map]; rfl

theorem specRun_cons (s : Store) (d : Disk) (sp : Spec) (op : Op) (ops : List Op) :
    specRun s d sp (op :: ops) =
      (specErr sp s.arr.initialized op, specNext sp s.arr.initialized op) ::
        specRun (s.step false d op).2.2 (d.applyAll (s.step false d op).2.1)
          (specNext sp s.arr.initialized op) ops := by
  simp only [specRun, specErr, specNext]
  cases specStep sp s.arr.initialized op <;> rfl

theorem getLast_getD_cons {α β : Type} (f : α → β) (x : α) (l : List α) (dflt : β) :
    ((x :: l).getLast?.map f).getD dflt = (l.getLast?.map f).getD (f x) := by
  cases l with
  | nil => simp
  | cons y l =>
    rw [List.getLast?_cons_cons, List.getLast?_eq_some_getLast (List.cons_ne_nil y l)]
    rfl

theorem specRun_last (s : Store) (d : Disk) (sp : Spec) (ops : List Op) :
    ((specRun s d sp ops).getLast?.map (·.2)).getD sp = specFinal s d sp ops := by
  induction ops generalizing s d sp with
  | nil => rfl
  | cons op ops ih => rw [specRun_cons, getLast_getD_cons, specFinal]; exact ih _ _ _

theorem opsOKFrom_cons (b : Nat) (s : Store) (d : Disk) (op : Op) (ops : List Op) :
    opsOKFrom b s d (op :: ops) ↔ opOK b s op ∧ (s.arr.closed = true → op.okWhenClosed = true) ∧
      opsOKFrom b (s.step false d op).2.2 (d.applyAll (s.step false d op).2.1) ops := by
  cases op <;> exact Iff.rfl

theorem runS_append (s : Store) (d : Disk) (l₁ l₂ : List Op) :
    runS s d (l₁ ++ l₂) = runS (runS s d l₁) (runD s d l₁) l₂ := by
  induction l₁ generalizing s d with
  | nil => rfl
  | cons op ops ih => simp only [List.cons_append, runS, runD]; exact ih _ _

theorem runD_append (s : Store) (d : Disk) (l₁ l₂ : List Op) :
    runD s d (l₁ ++ l₂) = runD (runS s d l₁) (runD s d l₁) l₂ := by
  induction l₁ generalizing s d with
  | nil => rfl
  | cons op ops ih => simp only [List.cons_append, runS, runD]; exact ih _ _

theorem specFinal_append (s : Store) (d : Disk) (sp : Spec) (l₁ l₂ : List Op) :
    specFinal s d sp (l₁ ++ l₂) = specFinal (runS s d l₁) (runD s d l₁) (specFinal s d sp l₁) l₂ := by
  induction l₁ generalizing s d sp with
  | nil => rfl
  | cons op ops ih => simp only [List.cons_append, runS, runD, specFinal]; exact ih _ _ _

theorem opsOKFrom_append (b : Nat) (s : Store) (d : Disk) (l₁ l₂ : List Op) :
    opsOKFrom b s d (l₁ ++ l₂) ↔ opsOKFrom b s d l₁ ∧ opsOKFrom b (runS s d l₁) (runD s d l₁) l₂ := by
  induction l₁ generalizing s d with
  | nil => simp [opsOKFrom, runS, runD]
  | cons op ops ih =>
    simp only [List.cons_append, opsOKFrom_cons, runS, runD, ih]
    tauto

theorem run_inv (b : Nat) (hb : 0 < b) (ops : List Op) (s : Store) (d : Disk) (sp : Spec)
    (hI : Inv b s d sp) (hops : opsOKFrom b s d ops) :
    Inv b (runS s d ops) (runD s d ops) (specFinal s d sp ops) := by
  induction ops generalizing s d sp with
  | nil => exact hI
  | cons op ops ih =>
    rw [opsOKFrom_cons] at hops
    obtain ⟨h1, h2, h3⟩ := hops
    exact ih _ _ _ (step_ok b hb s d sp hI op h1 h2).inv h3

theorem content_eq (b : Nat) (s : Store) (d : Disk) (sp : Spec) (hI : Inv b s d sp) :
    s.content d = sp.avail := by
  obtain ⟨h1, h2, h3, h4, h5, h6, h7⟩ := hI
  cases hin : s.arr.initialized with
  | false =>
    obtain ⟨ha, -⟩ := h5 hin
    simp only [Spec.all, List.append_eq_nil_iff] at ha
    rw [Store.content, ← h3, ha.1]
    rfl
  | true =>
    obtain ⟨hdata, -⟩ := h6 hin
    have hl : d.data.length = s.arr.rows := by
      rw [hdata, h4]; exact flatten_length_eq b _ h2
    rw [Store.content, List.take_of_length_le (by omega), hdata, h1]
    apply List.ext_getElem
    · simp [h3]
    · intro i hi1 hi2
      have hi3 : i < sp.all.length := by simp [Spec.all]; omega
      simp only [List.getElem_map, List.getElem_range]
      rw [Spec.rows, flatten_block b _ h2 i hi3]
      simp [Spec.all, List.getElem_append_left hi2]

theorem refines_from (b : Nat) (hb : 0 < b) (ops : List Op) (s : Store) (d : Disk) (sp : Spec)
    (hI : Inv b s d sp) (hops : opsOKFrom b s d ops) :
    (reportRun b s d ops).length = (specRun s d sp ops).length ∧
    ∀ i (h₁ : i < (reportRun b s d ops).length) (h₂ : i < (specRun s d sp ops).length),
      (((reportRun b s d ops)[i]'h₁).1.isSome = ((specRun s d sp ops)[i]'h₂).1.isSome) ∧
      ((reportRun b s d ops)[i]'h₁).2 = ((specRun s d sp ops)[i]'h₂).2.avail := by
  induction ops generalizing s d sp with
  | nil => simp [reportRun, specRun]
  | cons op ops ih =>
    rw [opsOKFrom_cons] at hops
    obtain ⟨h1, h2, h3⟩ := hops
    have hst := step_ok b hb s d sp hI op h1 h2
    obtain ⟨ihl, ihi⟩ := ih _ _ _ hst.inv h3
    simp only [specRun_cons, reportRun, List.length_cons]
    refine ⟨by rw [ihl], ?_⟩
    intro i h₁ h₂
    cases i with
    | zero =>
      simp only [List.getElem_cons_zero]
      exact ⟨hst.err, content_eq b _ _ _ hst.inv⟩
    | succ i =>
      simp only [List.getElem_cons_succ]
      exact ihi i _ _

theorem inv0 (b : Nat) : Inv b { b := b } Disk.empty {} := Inv.mk_uninit b false

theorem storeAfter_eq (b : Nat) (ops : List Op) : storeAfter b ops = runS { b := b } Disk.empty ops :=
  runOps_store _ _ _

theorem diskAfter_eq (b : Nat) (ops : List Op) : diskAfter b ops = runD { b := b } Disk.empty ops :=
  runOps_disk _ _ _

theorem specAfter_eq (b : Nat) (ops : List Op) :
    specAfter b ops = specFinal { b := b } Disk.empty {} ops :=
  specRun_last _ _ _ _

theorem runS_snoc (s : Store) (d : Disk) (ops : List Op) (op : Op) :
    runS s d (ops ++ [op]) = ((runS s d ops).step false (runD s d ops) op).2.2 := by
  rw [runS_append]; rfl

theorem runD_snoc (s : Store) (d : Disk) (ops : List Op) (op : Op) :
    runD s d (ops ++ [op]) =
      (runD s d ops).applyAll ((runS s d ops).step false (runD s d ops) op).2.1 := by
  rw [runD_append]; rfl

theorem npLoad_of_flushed (b : Nat) (s : Store) (d : Disk) (sp : Spec) (hI : Inv b s d sp)
    (hin : s.arr.initialized = true) (hp : s.arr.pending = false) : npLoad d = some sp.rows := by
  obtain ⟨h1, h2, h3, h4, h5, h6, h7⟩ := hI
  obtain ⟨hdata, h, hh, hle, hph⟩ := h6 hin
  have hl : d.data.length = s.arr.rows := by
    rw [hdata, h4]; exact flatten_length_eq b _ h2
  rw [npLoad, hh, hph hp]
  simp only [hl, le_refl, if_true]
  rw [List.take_of_length_le (by omega), hdata]

theorem flush_std (b : Nat) (hb : 0 < b) (ops : List Op) (op : Op)
    (hops : OpsOK b (ops ++ [op])) (hfl : op.flushLike = true)
    (hok : ((storeAfter b ops).step false (diskAfter b ops) op).1 = none)
    (hinit : (storeAfter b (ops ++ [op])).arr.initialized = true) :
    npLoad (diskAfter b (ops ++ [op])) = some (specAfter b (ops ++ [op])).rows := by
  rw [OpsOK, opsOKFrom_append] at hops
  obtain ⟨ho1, ho2⟩ := hops
  have hI := run_inv b hb ops _ _ _ (inv0 b) ho1
  have hI2 := run_inv b hb (ops ++ [op]) _ _ _ (inv0 b) ((opsOKFrom_append _ _ _ _ _).2 ⟨ho1, ho2⟩)
  rw [opsOKFrom_cons] at ho2
  have hst := step_ok b hb _ _ _ hI op ho2.1 ho2.2.1
  rw [storeAfter_eq, diskAfter_eq] at hok
  rw [storeAfter_eq] at hinit
  rw [diskAfter_eq, specAfter_eq]
  refine npLoad_of_flushed b _ _ _ hI2 hinit ?_
  rw [runS_snoc]
  exact hst.fl hfl hok

/-! ### Crash safety -/

/-- closed form of `opsBegun.go` -/
def begunG : List Nat → Nat → Nat
  | [], _ => 0
  | l :: rest, k => if k = 0 then 0 else 1 + begunG rest (k - l)

theorem begunG_zero (ls : List Nat) : begunG ls 0 = 0 := by
  cases ls <;> simp [begunG]

theorem go_eq (k : Nat) (ls : List Nat) (acc m : Nat) :
    opsBegun.go k ls acc m = m + begunG ls (k - acc) := by
  induction ls generalizing acc m with
  | nil =>
    unfold opsBegun.go
    simp [begunG]
  | cons l rest ih =>
    unfold opsBegun.go
    by_cases h : k ≤ acc
    · simp [h, Nat.sub_eq_zero_of_le h, begunG_zero]
    · have h' : k - acc ≠ 0 := by omega
      simp only [h, if_false, begunG, h', ih]
      rw [Nat.sub_sub]
      omega

theorem applyAll_append (d : Disk) (l₁ l₂ : List Step) :
    d.applyAll (l₁ ++ l₂) = (d.applyAll l₁).applyAll l₂ := by
  simp [Disk.applyAll]

theorem crash_from (b : Nat) (hb : 0 < b) (ops : List Op) (s : Store) (d : Disk) (sp : Spec)
    (R₀ : List Row) (hI : Inv b s d sp) (hops : opsOKFrom b s d ops) (hR : npLoad d = some R₀)
    (k : Nat) :
    ∃ R, npLoad (d.applyAll ((stepsFrom s d ops).flatten.take k)) = some R ∧
      (R = R₀ ∨ ∃ j, j ≤ ops.length ∧ j ≤ begunG ((stepsFrom s d ops).map List.length) k ∧
        R = (specFinal s d sp (ops.take j)).rows) := by
  induction ops generalizing s d sp R₀ k with
  | nil => exact ⟨R₀, by simpa [stepsFrom, Disk.applyAll] using hR, Or.inl rfl⟩
  | cons op ops ih =>
    rw [opsOKFrom_cons] at hops
    obtain ⟨h1, h2, h3⟩ := hops
    have hst := step_ok b hb s d sp hI op h1 h2
    have hcr := hst.crash R₀ hR
    simp only [stepsFrom, List.flatten_cons, List.map_cons, begunG]
    by_cases hk0 : k = 0
    · subst hk0
      exact ⟨R₀, by simpa [Disk.applyAll] using hR, Or.inl rfl⟩
    simp only [hk0, if_false]
    -- what the file loads to at a kill point inside (or at the end of) this operation
    have hcase : ∀ k', ∃ R', npLoad (d.applyAll ((s.step false d op).2.1.take k')) = some R' ∧
        (R' = R₀ ∨ R' = (specFinal s d sp ((op :: ops).take 0)).rows ∨
          R' = (specFinal s d sp ((op :: ops).take 1)).rows) := by
      intro k'
      rcases hcr k' with h | h | h
      · exact ⟨_, h, Or.inl rfl⟩
      · exact ⟨_, h, Or.inr (Or.inl rfl)⟩
      · exact ⟨_, h, Or.inr (Or.inr rfl)⟩
    have hfin : ∀ R', (R' = R₀ ∨ R' = (specFinal s d sp ((op :: ops).take 0)).rows ∨
          R' = (specFinal s d sp ((op :: ops).take 1)).rows) → ∀ n,
        (R' = R₀ ∨ ∃ j, j ≤ (op :: ops).length ∧ j ≤ 1 + n ∧
          R' = (specFinal s d sp ((op :: ops).take j)).rows) := by
      intro R' h n
      rcases h with h | h | h
      · exact Or.inl h
      · exact Or.inr ⟨0, by simp, by omega, h⟩
      · exact Or.inr ⟨1, by simp, by omega, h⟩
    by_cases hk : k ≤ (s.step false d op).2.1.length
    · rw [List.take_append_of_le_length hk]
      obtain ⟨R', hR', hc'⟩ := hcase k
      exact ⟨R', hR', hfin R' hc' _⟩
    · have hk' : (s.step false d op).2.1.length ≤ k := by omega
      rw [List.take_append, List.take_of_length_le hk', applyAll_append]
      obtain ⟨R', hR', hc'⟩ := hcase (s.step false d op).2.1.length
      rw [List.take_of_length_le (le_refl _)] at hR'
      obtain ⟨R, hR2, hc2⟩ := ih _ _ _ R' hst.inv h3 hR' (k - (s.step false d op).2.1.length)
      refine ⟨R, hR2, ?_⟩
      rcases hc2 with h | ⟨j, hj1, hj2, hj3⟩
      · rw [h]; exact hfin R' hc' _
      · exact Or.inr ⟨j + 1, by simp; omega, by omega, by rw [hj3]; rfl⟩

theorem refines_list' (b : Nat) (hb : 0 < b) (ops : List Op) (hops : OpsOK b ops) :
    Refines b ops :=
  refines_from b hb ops _ _ _ (inv0 b) hops

theorem flush_makes_standard' (b : Nat) (hb : 0 < b) (ops : List Op) (op : Op)
    (hops : OpsOK b (ops ++ [op])) (hfl : op.flushLike = true)
    (hok : ((storeAfter b ops).step false (diskAfter b ops) op).1 = none)
    (hinit : (storeAfter b (ops ++ [op])).arr.initialized = true) :
    npLoad (diskAfter b (ops ++ [op])) = some (specAfter b (ops ++ [op])).rows :=
  flush_std b hb ops op hops hfl hok hinit

theorem reopen_roundtrip' (sp : Spec) :
    specStep sp true .reopen = .ok { avail := sp.all, hidden := [] } ∧
    specStep sp true .pickle = .ok sp ∧
    (sp.hidden = [] → specStep sp true .reopen = .ok sp) := by
  refine ⟨by simp [specStep], by simp [specStep], ?_⟩
  intro h
  cases sp
  simp_all [specStep, Spec.all]

theorem crash_safe' (b : Nat) (hb : 0 < b) (ops₁ ops₂ : List Op) (hops : OpsOK b (ops₁ ++ ops₂))
    (hflushed : FlushedAfter b ops₁) (k : Nat) :
    ∃ j, j ≤ ops₂.length ∧ j ≤ opsBegun b ops₁ ops₂ k ∧
      npLoad ((diskAfter b ops₁).applyAll ((stepsOf b ops₁ ops₂).take k)) =
        some (specAfter b (ops₁ ++ ops₂.take j)).rows := by
  have hops' := hops
  rw [OpsOK, opsOKFrom_append] at hops'
  obtain ⟨ho1, ho2⟩ := hops'
  have hI := run_inv b hb ops₁ _ _ _ (inv0 b) ho1
  have hR : npLoad (diskAfter b ops₁) = some (specAfter b ops₁).rows := by
    obtain ⟨pre, op, hpre, hfl, hok, hinit⟩ := hflushed
    subst hpre
    exact flush_std b hb pre op ho1 hfl hok hinit
  rw [diskAfter_eq, specAfter_eq] at hR
  obtain ⟨R, hR1, hR2⟩ := crash_from b hb ops₂ _ _ _ _ hI ho2 hR k
  have hsteps : stepsOf b ops₁ ops₂ =
      (stepsFrom (runS { b := b } Disk.empty ops₁) (runD { b := b } Disk.empty ops₁) ops₂).flatten := by
    rw [stepsOf, storeAfter_eq, diskAfter_eq, runOps_steps]
  have hbegun : opsBegun b ops₁ ops₂ k = begunG ((stepsFrom (runS { b := b } Disk.empty ops₁)
      (runD { b := b } Disk.empty ops₁) ops₂).map List.length) k := by
    rw [opsBegun, storeAfter_eq, diskAfter_eq, runOps_lens, go_eq]
    simp
  rw [hsteps, hbegun, diskAfter_eq, hR1]
  rcases hR2 with h | ⟨j, hj1, hj2, hj3⟩
  · refine ⟨0, by omega, by omega, ?_⟩
    rw [h, List.take_zero, List.append_nil, specAfter_eq]
  · refine ⟨j, hj1, hj2, ?_⟩
    rw [hj3, specAfter_eq, specFinal_append]


theorem truncate_before_header_counterexample' :
    let ops₁ : List Op := [.set 0 [1, 1], .set 1 [2, 2], .flush]
    let r₁ := runOps true { b := 2 } Disk.empty ops₁
    let stepRes := r₁.2.1.step true r₁.2.2 (.del 1)
    npLoad (r₁.2.2.applyAll (stepRes.2.1.take 1)) = none := by
  decide

theorem overwrite_overtakes_append_counterexample' :
    let ops₁ : List Op := [.set 0 [1, 1], .set 1 [2, 2], .flush]
    let ops₂ : List Op := [.set 2 [3, 3], .set 0 [9, 9]]
    let r := runOps true { b := 2 } Disk.empty (ops₁ ++ ops₂)
    npLoad r.2.2 = some [9, 9, 2, 2] ∧
      [9, 9, 2, 2] ∉ [[1, 1, 2, 2], [1, 1, 2, 2, 3, 3], [9, 9, 2, 2, 3, 3]] := by
  decide

theorem crash_safe_example' :
    let ops₁ : List Op := [.set 0 [1, 1], .set 1 [2, 2], .flush]
    let ops₂ : List Op := [.set 2 [3, 3], .set 0 [9, 9]]
    OpsOK 2 (ops₁ ++ ops₂) ∧ FlushedAfter 2 ops₁ ∧
      npLoad (runOps false { b := 2 } Disk.empty (ops₁ ++ ops₂)).2.2 = some [9, 9, 2, 2, 3, 3] := by
  refine ⟨?_, ?_, ?_⟩
  · simp only [OpsOK, List.cons_append, List.nil_append, opsOKFrom]
    decide
  · exact ⟨[.set 0 [1, 1], .set 1 [2, 2]], .flush, rfl, rfl, by decide, by decide⟩
  · decide

end ElfiVerif.Npy
