import ElfiVerif.Model.NpyRebatch
import ElfiVerif.Proofs.Npy

/-! Proofs for the re-batching theorems of `Props/C06.lean` (model: `Model/NpyRebatch.lean`). -/
namespace ElfiVerif.Npy

/-! ### `chunks` / `tailRows` -/

theorem chunks_length (b : Nat) (rows : List Row) : (chunks b rows).length = rows.length / b := by
  simp [chunks]

theorem chunks_len (b : Nat) (rows : List Row) : ∀ x ∈ chunks b rows, x.length = b := by
  intro x hx
  simp only [chunks, List.mem_map, List.mem_range] at hx
  obtain ⟨i, hi, rfl⟩ := hx
  have h1 : (i + 1) * b ≤ rows.length / b * b := Nat.mul_le_mul_right _ hi
  have h2 : rows.length / b * b ≤ rows.length := Nat.div_mul_le_self _ _
  rw [Nat.succ_mul] at h1
  simp only [List.length_take, List.length_drop]
  omega

theorem chunks_flatten_aux (b : Nat) (rows : List Row) (n : Nat) :
    ((List.range n).map (fun i => (rows.drop (i * b)).take b)).flatten = rows.take (n * b) := by
  induction n with
  | zero => simp
  | succ n ih =>
    rw [List.range_succ, List.map_append, List.flatten_append, ih, Nat.succ_mul, List.take_add]
    simp

theorem chunks_flatten (b : Nat) (rows : List Row) :
    (chunks b rows).flatten = rows.take (rows.length / b * b) := chunks_flatten_aux b rows _

theorem chunks_tail (b : Nat) (rows : List Row) : (chunks b rows).flatten ++ tailRows b rows = rows := by
  rw [chunks_flatten, tailRows, List.take_append_drop]

theorem tailRows_length (b : Nat) (rows : List Row) : (tailRows b rows).length = rows.length % b := by
  have h := Nat.div_add_mod rows.length b
  rw [Nat.mul_comm] at h
  simp only [tailRows, List.length_drop]
  omega

/-! ### The phase with trailing rows -/

/-- store object while trailing rows are present -/
def stT (b : Nat) (avail : List (List Row)) (tail : List Row) (mm : Bool) : Store :=
  ⟨⟨true, avail.length * b + tail.length, false, mm, false⟩, b, avail.length⟩

/-- disk while trailing rows are present -/
def dkT (b : Nat) (avail : List (List Row)) (tail : List Row) : Disk :=
  ⟨some (avail.length * b + tail.length), avail.flatten ++ tail⟩

theorem contentT (b : Nat) (avail : List (List Row)) (hall : ∀ x ∈ avail, x.length = b) (tail : List Row)
    (mm : Bool) : (stT b avail tail mm).content (dkT b avail tail) = avail := by
  have hl : avail.flatten.length = avail.length * b := flatten_length_eq b avail hall
  simp only [Store.content, stT, dkT]
  rw [List.take_of_length_le (by simp [hl])]
  apply List.ext_getElem
  · simp
  · intro i h1 h2
    simp only [List.getElem_map, List.getElem_range]
    have hi : (i + 1) * b ≤ avail.length * b := Nat.mul_le_mul_right _ h2
    rw [Nat.succ_mul] at hi
    rw [List.drop_append_of_le_length (by omega),
      List.take_append_of_le_length (by simp only [List.length_drop]; omega),
      flatten_block b avail hall i h2]

theorem npLoadT (b : Nat) (avail : List (List Row)) (hall : ∀ x ∈ avail, x.length = b) (tail : List Row) :
    npLoad (dkT b avail tail) = some (avail.flatten ++ tail) := by
  have hl : avail.flatten.length = avail.length * b := flatten_length_eq b avail hall
  rw [dkT, npLoad_some _ _ (by simp [hl]), List.take_of_length_le (by simp [hl])]

theorem writeAt_append_left (L T : List Row) (pos : Nat) (batch : List Row)
    (h : pos + batch.length ≤ L.length) : writeAt (L ++ T) pos batch = writeAt L pos batch ++ T := by
  simp only [writeAt]
  rw [padTo_of_le _ _ (by simp only [List.length_append]; omega), padTo_of_le _ _ (by omega),
    List.take_append_of_le_length (by omega), List.drop_append_of_le_length h]
  simp

theorem stT_set (b : Nat) (avail : List (List Row)) (tail : List Row) (mm : Bool) (i : Nat) (batch : List Row) :
    stT b (avail.set i batch) tail mm = stT b avail tail mm := by
  simp [stT]

theorem stepT_set_lt (b : Nat) (avail : List (List Row)) (tail : List Row) (mm : Bool) (d : Disk) (i : Nat)
    (batch : List Row) (hi : i < avail.length) :
    Store.step false (stT b avail tail mm) d (.set i batch) =
      (none, owSteps (avail.length * b + tail.length) false mm (i * b) batch, stT b avail tail true) := by
  have hi' : (i + 1) * b ≤ avail.length * b := Nat.mul_le_mul_right _ hi
  have hne : ¬ i = avail.length := by omega
  have hngt : ¬ avail.length < i := by omega
  have hle1 : ¬ avail.length * b + tail.length < (i + 1) * b := by omega
  simp only [stT, Store.step, setRows_eq]
  simp [hne, hngt, hle1]

theorem diskT_set (b : Nat) (avail : List (List Row)) (hall : ∀ x ∈ avail, x.length = b) (tail : List Row)
    (mm : Bool) (i : Nat) (batch : List Row) (hbatch : batch.length = b) (hi : i < avail.length) :
    (dkT b avail tail).applyAll (owSteps (avail.length * b + tail.length) false mm (i * b) batch) =
      dkT b (avail.set i batch) tail := by
  have hl : avail.flatten.length = avail.length * b := flatten_length_eq b avail hall
  have hw := flatten_set_block b avail hall i hi batch hbatch
  have hi' : (i + 1) * b ≤ avail.length * b := Nat.mul_le_mul_right _ hi
  rw [Nat.succ_mul] at hi'
  have hpad : padTo (avail.flatten ++ tail) (avail.length * b + tail.length) = avail.flatten ++ tail :=
    padTo_of_le _ _ (by simp [hl])
  have hw2 := writeAt_append_left avail.flatten tail (i * b) batch (by omega)
  cases mm <;> simp [dkT, owSteps, Disk.applyAll, Disk.apply, hpad, hw2, hw]

theorem stepT_set_ge (b : Nat) (avail : List (List Row)) (tail : List Row) (mm : Bool) (d : Disk) (i : Nat)
    (batch : List Row) (ht0 : 0 < tail.length) (htb : tail.length < b) (hi : avail.length ≤ i) :
    Store.step false (stT b avail tail mm) d (.set i batch) =
      (some .indexError, [], stT b avail tail mm) := by
  simp only [stT, Store.step]
  by_cases h : i = avail.length
  · subst h
    have h1 : tail ≠ [] := by intro h; simp [h] at ht0
    have h3 : avail.length * b + tail.length < (avail.length + 1) * b := by rw [Nat.succ_mul]; omega
    simp [h1, h3]
  · have h2 : avail.length < i := by omega
    simp [h, h2]

theorem stepT_del_ne (b : Nat) (avail : List (List Row)) (tail : List Row) (mm : Bool) (d : Disk) (i : Nat)
    (hi : ¬ i + 1 = avail.length) :
    Store.step false (stT b avail tail mm) d (.del i) = (some .indexError, [], stT b avail tail mm) := by
  by_cases hge : avail.length ≤ i
  · simp [stT, Store.step, hge]
  · have : ¬ i = avail.length - 1 := by omega
    simp [stT, Store.step, hge, this]

theorem stepT_del_last (b : Nat) (avail : List (List Row)) (tail : List Row) (mm : Bool) (d : Disk) (i : Nat)
    (hi : i + 1 = avail.length) :
    Store.step false (stT b avail tail mm) d (.del i) =
      (none, [.hdr (i * b), .sync, .trunc (i * b)],
        ⟨⟨true, i * b, false, false, false⟩, b, avail.dropLast.length⟩) := by
  have hge : ¬ avail.length ≤ i := by omega
  have hi2 : i = avail.length - 1 := by omega
  simp only [stT, Store.step, truncate_eq]
  simp [hge, ← hi2]

theorem diskT_trunc (b : Nat) (avail : List (List Row)) (hall : ∀ x ∈ avail, x.length = b) (tail : List Row)
    (n : Nat) (hn : n ≤ avail.length) :
    (dkT b avail tail).applyAll [.hdr (n * b), .sync, .trunc (n * b)] =
      ⟨some (n * b), (avail.take n).flatten⟩ := by
  have hl : avail.flatten.length = avail.length * b := flatten_length_eq b avail hall
  have hn' : n * b ≤ avail.length * b := Nat.mul_le_mul_right _ hn
  have hpad : padTo (avail.flatten ++ tail) (n * b) = avail.flatten ++ tail :=
    padTo_of_le _ _ (by simp only [List.length_append]; omega)
  have ht : (avail.flatten ++ tail).take (n * b) = (avail.take n).flatten := by
    rw [List.take_append_of_le_length (by omega), flatten_take_blocks b avail hall]
  simp [dkT, Disk.applyAll, Disk.apply, hpad, ht]

theorem stepT_clear (b : Nat) (avail : List (List Row)) (tail : List Row) (mm : Bool) (d : Disk) :
    Store.step false (stT b avail tail mm) d .clear =
      (none, [.hdr 0, .sync, .trunc 0], ⟨⟨true, 0, false, false, false⟩, b, 0⟩) := by
  simp only [stT, Store.step, truncate_eq]
  simp

theorem stepT_flush (b : Nat) (avail : List (List Row)) (tail : List Row) (mm : Bool) (d : Disk) :
    Store.step false (stT b avail tail mm) d .flush =
      (none, [.sync], stT b avail tail mm) := by
  simp only [stT, Store.step, flush_eq]
  simp [hfSteps]

/-! ### The aligned phase -/

theorem reportRunB_cons (s : Store) (d : Disk) (op : Op) (ops : List Op) :
    reportRunB s d (op :: ops) =
      ((s.step false d op).1.isSome, (s.step false d op).2.2.content (d.applyAll (s.step false d op).2.1)) ::
        reportRunB (s.step false d op).2.2 (d.applyAll (s.step false d op).2.1) ops := rfl

theorem specRunT_true (avail : List (List Row)) (op : Op) (ops : List Op) :
    specRunT avail true (op :: ops) =
      match specStepT avail op with
      | .error _ => (true, avail) :: specRunT avail true ops
      | .ok (av, t) => (false, av) :: specRunT av t ops := rfl

theorem specRunT_false (avail : List (List Row)) (op : Op) (ops : List Op) :
    specRunT avail false (op :: ops) =
      match specStep { avail := avail } true op with
      | .error _ => (true, avail) :: specRunT avail false ops
      | .ok sp => (false, sp.avail) :: specRunT sp.avail false ops := rfl

theorem hidden_nil (b : Nat) (avail : List (List Row)) (op : Op) (hop : opT b op = true) :
    (specNext { avail := avail } true op).hidden = [] := by
  cases op with
  | set i batch =>
    simp only [specNext, specStep]
    split_ifs <;> rfl
  | del i =>
    simp only [specNext, specStep]
    split_ifs <;> rfl
  | clear => simp [specNext, specStep]
  | flush => simp [specNext, specStep]
  | _ => simp [opT] at hop

theorem step_keeps (b : Nat) (s : Store) (d : Disk) (op : Op) (hop : opT b op = true)
    (hin : s.arr.initialized = true) (hcl : s.arr.closed = false) :
    (s.step false d op).2.2.arr.initialized = true ∧ (s.step false d op).2.2.arr.closed = false := by
  obtain ⟨⟨init, rows, pending, mm, closed⟩, b', nB⟩ := s
  simp only at hin hcl
  subst hin hcl
  cases op with
  | set i batch =>
    simp only [Store.step, append_eq, setRows_eq, Bool.false_eq_true, if_false]
    split_ifs <;> exact ⟨rfl, rfl⟩
  | del i =>
    simp only [Store.step, truncate_eq, Bool.false_eq_true, if_false]
    split_ifs <;> exact ⟨rfl, rfl⟩
  | clear => simp [Store.step, truncate_eq]
  | flush => simp [Store.step, flush_eq]
  | _ => simp [opT] at hop

theorem runA (b : Nat) (hb : 0 < b) (ops : List Op) (s : Store) (d : Disk) (avail : List (List Row))
    (hI : Inv b s d { avail := avail }) (hin : s.arr.initialized = true) (hcl : s.arr.closed = false)
    (hops : ∀ op ∈ ops, opT b op = true) :
    reportRunB s d ops = specRunT avail false ops := by
  induction ops generalizing s d avail with
  | nil => rfl
  | cons op ops ih =>
    have hop := hops op List.mem_cons_self
    have hops' : ∀ o ∈ ops, opT b o = true := fun o ho => hops o (List.mem_cons_of_mem _ ho)
    have hopOK : opOK b s op := by
      cases op <;> simp [opT] at hop <;> simp [opOK, hop]
    have hst := step_ok b hb s d _ hI op hopOK (by rw [hcl]; intro h; cases h)
    obtain ⟨hin', hcl'⟩ := step_keeps b s d op hop hin hcl
    have hinv := hst.inv
    have herr := hst.err
    rw [hin] at hinv herr
    have hh := hidden_nil b avail op hop
    rw [reportRunB_cons, specRunT_false, content_eq b _ _ _ hinv, herr]
    have key : ∀ sp' : Spec, sp'.hidden = [] →
        Inv b (s.step false d op).2.2 (d.applyAll (s.step false d op).2.1) sp' →
        reportRunB (s.step false d op).2.2 (d.applyAll (s.step false d op).2.1) ops =
          specRunT sp'.avail false ops := by
      intro sp' hh' hI'
      obtain ⟨av, hd⟩ := sp'
      simp only at hh'
      subst hh'
      exact ih _ _ _ hI' hin' hcl' hops'
    rw [key _ hh hinv]
    simp only [specNext, specErr]
    cases specStep { avail := avail } true op <;> rfl

/-! ### Histories with trailing rows -/

theorem runT (b : Nat) (hb : 0 < b) (ops : List Op) (avail : List (List Row))
    (hall : ∀ x ∈ avail, x.length = b) (tail : List Row) (ht0 : 0 < tail.length) (htb : tail.length < b)
    (mm : Bool) (hops : ∀ op ∈ ops, opT b op = true) :
    reportRunB (stT b avail tail mm) (dkT b avail tail) ops = specRunT avail true ops := by
  induction ops generalizing avail mm with
  | nil => rfl
  | cons op ops ih =>
    have hop := hops op List.mem_cons_self
    have hops' : ∀ o ∈ ops, opT b o = true := fun o ho => hops o (List.mem_cons_of_mem _ ho)
    rw [reportRunB_cons, specRunT_true]
    cases op with
    | set i batch =>
      have hbatch : batch.length = b := by simpa [opT] using hop
      by_cases hi : i < avail.length
      · have hall' := all_len_set b avail hall i batch hbatch
        rw [stepT_set_lt b avail tail mm _ i batch hi]
        simp only []
        rw [diskT_set b avail hall tail mm i batch hbatch hi, ← stT_set b avail tail true i batch,
          contentT b _ hall', ih _ hall' true hops']
        simp [specStepT, hi]
      · rw [stepT_set_ge b avail tail mm _ i batch ht0 htb (by omega)]
        simp only [Disk.applyAll, List.foldl_nil]
        rw [contentT b _ hall, ih _ hall mm hops']
        simp [specStepT, hi]
    | del i =>
      by_cases hi : i + 1 = avail.length
      · rw [stepT_del_last b avail tail mm _ i hi]
        simp only []
        rw [diskT_trunc b avail hall tail i (by omega)]
        have htk : avail.take i = avail.dropLast := by
          rw [List.dropLast_eq_take]; congr 1; omega
        rw [htk]
        have hI : Inv b ⟨⟨true, i * b, false, false, false⟩, b, avail.dropLast.length⟩
            ⟨some (i * b), avail.dropLast.flatten⟩ { avail := avail.dropLast } := by
          refine Inv.mk_init' b _ _ _ false false false _ _ _ (by simp) ?_ rfl ?_ (le_refl _)
            (fun _ => rfl) (by simp)
          · intro x hx
            simp only [List.append_nil] at hx
            exact hall x (List.dropLast_subset _ hx)
          · simp only [List.append_nil, List.length_dropLast]
            congr 1; omega
        rw [content_eq b _ _ _ hI, runA b hb ops _ _ _ hI rfl rfl hops']
        simp [specStepT, hi]
      · rw [stepT_del_ne b avail tail mm _ i hi]
        simp only [Disk.applyAll, List.foldl_nil]
        rw [contentT b _ hall, ih _ hall mm hops']
        simp [specStepT, hi]
    | clear =>
      rw [stepT_clear b avail tail mm]
      simp only []
      have hd := diskT_trunc b avail hall tail 0 (by omega)
      simp only [Nat.zero_mul, List.take_zero, List.flatten_nil] at hd
      rw [hd]
      have hI : Inv b ⟨⟨true, 0, false, false, false⟩, b, 0⟩ ⟨some 0, []⟩ { avail := [] } :=
        Inv.mk_init' b _ _ _ false false false _ _ _ (by simp) (by simp) (by simp) (by simp) (le_refl _)
          (fun _ => rfl) (by simp)
      rw [content_eq b _ _ _ hI, runA b hb ops _ _ _ hI rfl rfl hops']
      simp [specStepT]
    | flush =>
      rw [stepT_flush b avail tail mm]
      simp only [Disk.applyAll, List.foldl_cons, List.foldl_nil, Disk.apply]
      rw [contentT b _ hall, ih _ hall mm hops']
      simp [specStepT]
    | _ => simp [opT] at hop

/-! ### Main theorems -/

theorem openB_eq (rows : List Row) (b : Nat) :
    Store.openB ⟨some rows.length, rows⟩ b = .ok ⟨⟨true, rows.length, false, false, false⟩, b, rows.length / b⟩ :=
  rfl

theorem rebatch_view' (rows : List Row) (b : Nat) (hb : 0 < b) :
    ∃ s, Store.openB ⟨some rows.length, rows⟩ b = .ok s ∧ s.nBatches = rows.length / b ∧
      s.content ⟨some rows.length, rows⟩ = chunks b rows ∧
      (∀ x ∈ chunks b rows, x.length = b) ∧
      (chunks b rows).flatten ++ tailRows b rows = rows ∧ (tailRows b rows).length = rows.length % b := by
  refine ⟨_, openB_eq rows b, rfl, ?_, chunks_len b rows, chunks_tail b rows, tailRows_length b rows⟩
  simp [Store.content, chunks]

theorem rebatch_aligned' (rows : List Row) (b : Nat) (hb : 0 < b) (hdiv : b ∣ rows.length) (s : Store)
    (hs : Store.openB ⟨some rows.length, rows⟩ b = .ok s) :
    Inv b s ⟨some rows.length, rows⟩ { avail := chunks b rows } := by
  rw [openB_eq] at hs
  cases hs
  have hq : rows.length / b * b = rows.length := Nat.div_mul_cancel hdiv
  refine Inv.mk_init' b _ _ _ false false false _ _ _ ?_ ?_ ?_ ?_ (le_refl _) (fun _ => rfl) (by simp)
  · rw [List.append_nil, chunks_flatten, hq, List.take_length]
  · simpa using chunks_len b rows
  · exact chunks_length b rows
  · rw [List.append_nil, chunks_length, hq]

theorem openB_T (rows : List Row) (b : Nat) :
    (⟨⟨true, rows.length, false, false, false⟩, b, rows.length / b⟩ : Store) =
        stT b (chunks b rows) (tailRows b rows) false ∧
      (⟨some rows.length, rows⟩ : Disk) = dkT b (chunks b rows) (tailRows b rows) := by
  have h1 : rows.length / b * b + (tailRows b rows).length = rows.length := by
    rw [tailRows_length, Nat.mul_comm]; exact Nat.div_add_mod _ _
  simp only [stT, dkT, chunks_length, h1, chunks_tail, and_self]

theorem rebatch_refines' (rows : List Row) (b : Nat) (hb : 0 < b) (s : Store)
    (hs : Store.openB ⟨some rows.length, rows⟩ b = .ok s) (ops : List Op) (hops : ∀ op ∈ ops, opT b op = true) :
    reportRunB s ⟨some rows.length, rows⟩ ops = specRunT (chunks b rows) (decide (rows.length % b ≠ 0)) ops := by
  by_cases hm : rows.length % b = 0
  · have hI := rebatch_aligned' rows b hb (Nat.dvd_of_mod_eq_zero hm) s hs
    rw [openB_eq] at hs
    cases hs
    simp only [hm, ne_eq, not_true_eq_false, decide_false]
    exact runA b hb ops _ _ _ hI rfl rfl hops
  · rw [openB_eq] at hs
    cases hs
    obtain ⟨e1, e2⟩ := openB_T rows b
    rw [e1, e2]
    simp only [ne_eq, hm, not_false_eq_true, decide_true]
    have hl := tailRows_length b rows
    exact runT b hb ops _ (chunks_len b rows) _ (by omega) (by rw [hl]; exact Nat.mod_lt _ hb) false hops

theorem rebatch_tail_untouched' (rows : List Row) (b : Nat) (hb : 0 < b) (htail : rows.length % b ≠ 0) (s : Store)
    (hs : Store.openB ⟨some rows.length, rows⟩ b = .ok s) (i : Nat) (batch : List Row) (hlen : batch.length = b) :
    let d : Disk := ⟨some rows.length, rows⟩
    let r := s.step false d (.set i batch)
    (rows.length / b ≤ i → r = (some .indexError, [], s)) ∧
    (i < rows.length / b → r.1 = none ∧
      npLoad (d.applyAll r.2.1) = some (((chunks b rows).set i batch).flatten ++ tailRows b rows)) := by
  intro d r
  rw [openB_eq] at hs
  cases hs
  obtain ⟨e1, e2⟩ := openB_T rows b
  have hl := tailRows_length b rows
  have hcl := chunks_length b rows
  have hall := chunks_len b rows
  simp only [r, d]
  rw [e1, e2]
  constructor
  · intro hi
    exact stepT_set_ge b _ _ false _ i batch (by omega) (by rw [hl]; exact Nat.mod_lt _ hb) (by omega)
  · intro hi
    have hi' : i < (chunks b rows).length := by omega
    rw [stepT_set_lt b _ _ false _ i batch hi']
    refine ⟨rfl, ?_⟩
    simp only []
    rw [diskT_set b _ hall _ false i batch hlen hi', npLoadT b _ (all_len_set b _ hall i batch hlen)]

end ElfiVerif.Npy
