import ElfiVerif.Model.Pool

/-! Proofs for the pool life-cycle theorems of `Props/C05.lean` (model: `Model/Pool.lean`). -/
namespace ElfiVerif.Pool

variable {Val : Type}

/-! ### association-list lookup -/

def look (fs : List (String × Option (StoreC Val))) (n : String) : Option (Option (StoreC Val)) :=
  (fs.find? (·.1 == n)).map (·.2)

theorem getStore_eq_look (p : Pool Val) (n : String) : getStore p n = look p.stores n := rfl

theorem look_nil (n : String) : look ([] : List (String × Option (StoreC Val))) n = none := rfl

theorem look_cons (e : String × Option (StoreC Val)) (t : List (String × Option (StoreC Val))) (n : String) :
    look (e :: t) n = if e.1 == n then some e.2 else look t n := by
  unfold look
  rw [List.find?_cons]
  cases h : (e.1 == n) <;> simp

theorem look_append (a b : List (String × Option (StoreC Val))) (n : String) :
    look (a ++ b) n = (look a n).or (look b n) := by
  induction a with
  | nil => simp [look_nil]
  | cons e t ih =>
    rw [List.cons_append, look_cons, look_cons]
    cases h : (e.1 == n) <;> simp [ih]

theorem any_eq_look (fs : List (String × Option (StoreC Val))) (n : String) :
    fs.any (·.1 == n) = (look fs n).isSome := by
  induction fs with
  | nil => simp [look_nil]
  | cons e t ih =>
    rw [List.any_cons, look_cons, ih]
    cases h : (e.1 == n) <;> simp

theorem look_none_of_notin (fs : List (String × Option (StoreC Val))) (n : String)
    (h : n ∉ fs.map (·.1)) : look fs n = none := by
  induction fs with
  | nil => rfl
  | cons e t ih =>
    rw [look_cons]
    simp only [List.map_cons, List.mem_cons, not_or] at h
    have : (e.1 == n) = false := by
      simp only [beq_eq_false_iff_ne, ne_eq]; exact fun hh => h.1 hh.symm
    simp [this, ih h.2]

theorem look_none_all (fs : List (String × Option (StoreC Val))) (n : String)
    (h : look fs n = none) : ∀ e ∈ fs, (e.1 == n) = false := by
  induction fs with
  | nil => intro e he; cases he
  | cons e t ih =>
    rw [look_cons] at h
    cases hh : (e.1 == n)
    · simp only [hh] at h
      intro x hx
      rcases List.mem_cons.1 hx with rfl | hx
      · exact hh
      · exact ih (by simpa using h) x hx
    · simp [hh] at h

theorem look_some_mem (fs : List (String × Option (StoreC Val))) (n : String) (s : Option (StoreC Val))
    (h : look fs n = some s) : (n, s) ∈ fs := by
  induction fs with
  | nil => simp [look_nil] at h
  | cons e t ih =>
    rw [look_cons] at h
    cases hh : (e.1 == n)
    · simp only [hh] at h
      exact List.mem_cons_of_mem _ (ih (by simpa using h))
    · simp only [hh, if_true] at h
      have h1 : e.1 = n := by simpa using hh
      have h2 : e.2 = s := by simpa using h
      obtain ⟨k, v⟩ := e
      simp only at h1 h2
      subst h1; subst h2
      exact List.mem_cons_self

theorem look_of_mem_nodup (fs : List (String × Option (StoreC Val))) (hn : (fs.map (·.1)).Nodup)
    (e : String × Option (StoreC Val)) (he : e ∈ fs) : look fs e.1 = some e.2 := by
  induction fs with
  | nil => cases he
  | cons x t ih =>
    rw [List.map_cons, List.nodup_cons] at hn
    rw [look_cons]
    rcases List.mem_cons.1 he with rfl | he
    · simp
    · have : (x.1 == e.1) = false := by
        simp only [beq_eq_false_iff_ne, ne_eq]
        intro hh
        exact hn.1 (hh ▸ List.mem_map_of_mem he)
      simp [this, ih hn.2 he]

/-! ### `writeFile` and `save` -/

theorem look_map_same (fs : List (String × Option (StoreC Val))) (node : String) (s : Option (StoreC Val)) :
    look (fs.map (fun e => if e.1 == node then (node, s) else e)) node = (look fs node).map (fun _ => s) := by
  induction fs with
  | nil => rfl
  | cons e t ih =>
    rw [List.map_cons, look_cons, look_cons, ih]
    cases h : (e.1 == node) <;> simp [h]

theorem look_map_other (fs : List (String × Option (StoreC Val))) (node n : String) (s : Option (StoreC Val))
    (hne : n ≠ node) :
    look (fs.map (fun e => if e.1 == node then (node, s) else e)) n = look fs n := by
  induction fs with
  | nil => rfl
  | cons e t ih =>
    rw [List.map_cons, look_cons, look_cons, ih]
    cases h : (e.1 == node)
    · simp
    · have h1 : e.1 = node := by simpa using h
      have h2 : (node == n) = false := by
        simp only [beq_eq_false_iff_ne, ne_eq]; exact fun hh => hne hh.symm
      simp [h1, h2]

theorem look_writeFile_same (fs : List (String × Option (StoreC Val))) (node : String) (s : Option (StoreC Val)) :
    look (writeFile fs node s) node = some s := by
  unfold writeFile
  rw [any_eq_look]
  cases h : look fs node with
  | none => simp [look_append, h, look_cons]
  | some v =>
    simp only [Option.isSome_some, if_true]
    rw [look_map_same, h]; rfl

theorem look_writeFile_other (fs : List (String × Option (StoreC Val))) (node n : String) (s : Option (StoreC Val))
    (hne : n ≠ node) : look (writeFile fs node s) n = look fs n := by
  unfold writeFile
  have h2 : (node == n) = false := by
    simp only [beq_eq_false_iff_ne, ne_eq]; exact fun hh => hne hh.symm
  split
  · exact look_map_other fs node n s hne
  · simp [look_append, look_cons, look_nil, h2]

theorem look_fold_notin (l fs : List (String × Option (StoreC Val))) (n : String)
    (h : n ∉ l.map (·.1)) : look (l.foldl (fun fs e => writeFile fs e.1 e.2) fs) n = look fs n := by
  induction l generalizing fs with
  | nil => rfl
  | cons e t ih =>
    simp only [List.map_cons, List.mem_cons, not_or] at h
    rw [List.foldl_cons, ih _ h.2, look_writeFile_other _ _ _ _ h.1]

theorem look_fold_mem (l fs : List (String × Option (StoreC Val))) (hn : (l.map (·.1)).Nodup)
    (e : String × Option (StoreC Val)) (he : e ∈ l) :
    look (l.foldl (fun fs e => writeFile fs e.1 e.2) fs) e.1 = some e.2 := by
  induction l generalizing fs with
  | nil => cases he
  | cons x t ih =>
    rw [List.map_cons, List.nodup_cons] at hn
    rw [List.foldl_cons]
    rcases List.mem_cons.1 he with rfl | he
    · rw [look_fold_notin _ _ _ hn.1, look_writeFile_same]
    · exact ih _ hn.2 he

theorem rebuild (l fs : List (String × Option (StoreC Val)))
    (h : ∀ e ∈ l, look fs e.1 = some e.2) :
    (l.map (·.1)).filterMap (fun n => (fs.find? (·.1 == n)).map (fun e => (n, e.2))) = l := by
  induction l with
  | nil => rfl
  | cons x t ih =>
    have hx := h x List.mem_cons_self
    unfold look at hx
    rw [List.map_cons, List.filterMap_cons]
    cases hf : fs.find? (·.1 == x.1) with
    | none => simp [hf] at hx
    | some y =>
      rw [hf] at hx
      have : y.2 = x.2 := by simpa using hx
      simp only [Option.map_some, this]
      rw [ih (fun e he => h e (List.mem_cons_of_mem _ he))]

theorem open_after_save (stores : List (String × Option (StoreC Val))) (c : Option (Nat × Nat))
    (fs : List (String × Option (StoreC Val))) (hn : (stores.map (·.1)).Nodup) :
    openDir { poolPkl := some (stores.map (·.1), c),
              files := stores.foldl (fun fs e => writeFile fs e.1 e.2) fs } =
      some { stores := stores, ctx := c } := by
  unfold openDir
  simp only
  rw [rebuild stores _ (fun e he => look_fold_mem stores fs hn e he)]

theorem save_ok (p : Pool Val) (d d' : Dir Val) (hs : save p d = .ok d') :
    d' = { poolPkl := some (p.stores.map (·.1), p.ctx),
           files := p.stores.foldl (fun fs e => writeFile fs e.1 e.2) d.files } := by
  unfold save at hs
  cases hc : p.ctx with
  | none => simp [hc] at hs
  | some c =>
    simp only [hc] at hs
    injection hs with hs
    exact hs.symm

theorem save_open_roundtrip' (p : Pool Val) (d d' : Dir Val) (hn : (p.stores.map (·.1)).Nodup)
    (hs : save p d = .ok d') : openDir d' = some p := by
  rw [save_ok p d d' hs, open_after_save _ _ _ hn]

theorem removed_store_stays_removed' (p p' : Pool Val) (d d₁ d₂ : Dir Val) (node : String)
    (hn : (p.stores.map (·.1)).Nodup) (h₁ : save p d = .ok d₁) (hr : removeStore p node = .ok p')
    (h₂ : save p' d₁ = .ok d₂) :
    openDir d₂ = some p' ∧ getStore p' node = none ∧ (∃ s, (node, s) ∈ d₂.files) := by
  unfold removeStore at hr
  cases hg : getStore p node with
  | none => simp [hg] at hr
  | some st =>
    simp only [hg] at hr
    injection hr with hr
    have hst : p'.stores = p.stores.filter (·.1 != node) := by rw [← hr]
    have hnotin : node ∉ p'.stores.map (·.1) := by
      rw [hst]; simp [List.mem_map, List.mem_filter]
    have hn' : (p'.stores.map (·.1)).Nodup := by
      rw [hst]
      exact hn.sublist (List.Sublist.map _ List.filter_sublist)
    refine ⟨save_open_roundtrip' p' d₁ d₂ hn' h₂, ?_, ?_⟩
    · rw [getStore_eq_look]; exact look_none_of_notin _ _ hnotin
    · have hmem := look_some_mem _ _ _ (by rw [← getStore_eq_look]; exact hg)
      have h1 := look_fold_mem p.stores d.files hn _ hmem
      refine ⟨st, look_some_mem _ _ _ ?_⟩
      rw [save_ok _ _ _ h₂]
      simp only
      rw [look_fold_notin _ _ _ hnotin, save_ok _ _ _ h₁]
      exact h1

/-! ### `lookupI` -/

theorem lookupI_nil (j : Nat) : lookupI ([] : StoreC Val) j = none := rfl

theorem lookupI_cons (e : Nat × Val) (t : StoreC Val) (j : Nat) :
    lookupI (e :: t) j = if e.1 == j then some e.2 else lookupI t j := by
  unfold lookupI
  rw [List.find?_cons]
  cases h : (e.1 == j) <;> simp

theorem lookupI_append_single (s : StoreC Val) (idx : Nat) (v : Val) (j : Nat) :
    lookupI (s ++ [(idx, v)]) j =
      match lookupI s j with
      | some w => some w
      | none => if idx == j then some v else none := by
  induction s with
  | nil => simp [lookupI_cons, lookupI_nil]
  | cons e t ih =>
    rw [List.cons_append, lookupI_cons, lookupI_cons, ih]
    cases h : (e.1 == j) <;> simp

theorem lookupI_none_of_notin (s : StoreC Val) (j : Nat) (h : j ∉ s.map (·.1)) : lookupI s j = none := by
  induction s with
  | nil => rfl
  | cons e t ih =>
    simp only [List.map_cons, List.mem_cons, not_or] at h
    rw [lookupI_cons]
    have : (e.1 == j) = false := by
      simp only [beq_eq_false_iff_ne, ne_eq]; exact fun hh => h.1 hh.symm
    simp [this, ih h.2]

theorem lookupI_isSome_of_mem (s : StoreC Val) (j : Nat) (h : j ∈ s.map (·.1)) : (lookupI s j).isSome := by
  induction s with
  | nil => simp at h
  | cons e t ih =>
    rw [lookupI_cons]
    cases hh : (e.1 == j)
    · simp only [List.map_cons, List.mem_cons] at h
      rcases h with h | h
      · have : (e.1 == j) = true := by simp [h]
        rw [hh] at this; cases this
      · simpa using ih h
    · simp

/-- what `add_batch` does to one store -/
def upd (s : StoreC Val) (idx : Nat) (v : Val) : StoreC Val :=
  if (lookupI s idx).isSome then s else s ++ [(idx, v)]

theorem lookupI_upd_ne (s : StoreC Val) (idx : Nat) (v : Val) (j : Nat) (hj : j ≠ idx) :
    lookupI (upd s idx v) j = lookupI s j := by
  unfold upd
  split
  · rfl
  · rw [lookupI_append_single]
    have : (idx == j) = false := by
      simp only [beq_eq_false_iff_ne, ne_eq]; exact fun hh => hj hh.symm
    cases lookupI s j <;> simp [this]

theorem lookupI_upd_same (s : StoreC Val) (idx : Nat) (v : Val) :
    lookupI (upd s idx v) idx =
      match lookupI s idx with
      | some v₀ => some v₀
      | none => some v := by
  unfold upd
  cases h : lookupI s idx with
  | none => simp [lookupI_append_single, h]
  | some w => simp [h]

/-! ### `addBatch` as a map over the stores -/

def stepL (idx : Nat) (l : List (String × Option (StoreC Val))) (nv : String × Val) :
    List (String × Option (StoreC Val)) :=
  match look l nv.1 with
  | none => l
  | some st => setStore l nv.1 (some (upd (st.getD []) idx nv.2))

def hmap (idx : Nat) (nv : String × Val) (e : String × Option (StoreC Val)) : String × Option (StoreC Val) :=
  if e.1 == nv.1 then (e.1, some (upd (e.2.getD []) idx nv.2)) else e

def gmap (idx : Nat) (b : List (String × Val)) (e : String × Option (StoreC Val)) :
    String × Option (StoreC Val) :=
  match batchVal b e.1 with
  | none => e
  | some v => (e.1, some (upd (e.2.getD []) idx v))

theorem hmap_fst (idx : Nat) (nv : String × Val) (e : String × Option (StoreC Val)) :
    (hmap idx nv e).1 = e.1 := by
  unfold hmap; split <;> rfl

theorem gmap_fst (idx : Nat) (b : List (String × Val)) (e : String × Option (StoreC Val)) :
    (gmap idx b e).1 = e.1 := by
  unfold gmap; split <;> rfl

theorem keys_map_of_fst (f : String × Option (StoreC Val) → String × Option (StoreC Val))
    (hf : ∀ e, (f e).1 = e.1) (l : List (String × Option (StoreC Val))) :
    (l.map f).map (·.1) = l.map (·.1) := by
  rw [List.map_map]
  exact List.map_congr_left (fun e _ => hf e)

theorem stepL_eq_map (idx : Nat) (l : List (String × Option (StoreC Val))) (nv : String × Val)
    (hn : (l.map (·.1)).Nodup) : stepL idx l nv = l.map (hmap idx nv) := by
  unfold stepL
  cases h : look l nv.1 with
  | none =>
    simp only
    have := look_none_all l nv.1 h
    symm
    rw [List.map_congr_left (g := id)]
    · simp
    · intro e he; unfold hmap; simp [this e he]
  | some st =>
    simp only
    unfold setStore
    apply List.map_congr_left
    intro e he
    unfold hmap
    cases hh : (e.1 == nv.1)
    · simp
    · have h1 : e.1 = nv.1 := by simpa using hh
      have h2 := look_of_mem_nodup l hn e he
      rw [h1, h] at h2
      have h3 : st = e.2 := by simpa using h2
      simp [h3]

theorem batchVal_cons (nv : String × Val) (t : List (String × Val)) (n : String) :
    batchVal (nv :: t) n = if nv.1 == n then some nv.2 else batchVal t n := by
  unfold batchVal
  rw [List.find?_cons]
  cases h : (nv.1 == n) <;> simp

theorem batchVal_none_of_notin (b : List (String × Val)) (n : String) (h : n ∉ b.map (·.1)) :
    batchVal b n = none := by
  induction b with
  | nil => rfl
  | cons e t ih =>
    simp only [List.map_cons, List.mem_cons, not_or] at h
    rw [batchVal_cons]
    have : (e.1 == n) = false := by
      simp only [beq_eq_false_iff_ne, ne_eq]; exact fun hh => h.1 hh.symm
    simp [this, ih h.2]

theorem gmap_hmap (idx : Nat) (nv : String × Val) (t : List (String × Val)) (hnot : nv.1 ∉ t.map (·.1))
    (e : String × Option (StoreC Val)) : gmap idx t (hmap idx nv e) = gmap idx (nv :: t) e := by
  unfold hmap
  cases hh : (e.1 == nv.1)
  · have h2 : (nv.1 == e.1) = false := by
      simp only [beq_eq_false_iff_ne, ne_eq] at hh ⊢; exact fun h => hh h.symm
    simp only [Bool.false_eq_true, if_false]
    unfold gmap
    rw [batchVal_cons, h2]
    simp
  · have h1 : e.1 = nv.1 := by simpa using hh
    simp only [if_true]
    unfold gmap
    simp only
    rw [batchVal_cons, h1, batchVal_none_of_notin t nv.1 hnot]
    simp

theorem foldl_stepL (idx : Nat) (b : List (String × Val)) (hb : (b.map (·.1)).Nodup) :
    ∀ (l : List (String × Option (StoreC Val))), (l.map (·.1)).Nodup →
      b.foldl (stepL idx) l = l.map (gmap idx b) := by
  induction b with
  | nil =>
    intro l _
    simp only [List.foldl_nil]
    symm
    rw [List.map_congr_left (g := id)]
    · simp
    · intro e _; rfl
  | cons nv t ih =>
    intro l hn
    rw [List.map_cons, List.nodup_cons] at hb
    rw [List.foldl_cons, stepL_eq_map idx l nv hn, ih hb.2, List.map_map]
    · exact List.map_congr_left (fun e _ => gmap_hmap idx nv t hb.1 e)
    · rw [keys_map_of_fst _ (hmap_fst idx nv)]; exact hn

theorem foldl_pool_step (idx : Nat) (f : Pool Val → String × Val → Pool Val)
    (hf : ∀ p nv, f p nv = { p with stores := stepL idx p.stores nv }) (b : List (String × Val)) :
    ∀ p : Pool Val, b.foldl f p = { p with stores := b.foldl (stepL idx) p.stores } := by
  induction b with
  | nil => intro p; rfl
  | cons nv t ih => intro p; rw [List.foldl_cons, List.foldl_cons, ih, hf]

theorem addBatch_eq_foldl (p : Pool Val) (b : List (String × Val)) (idx : Nat) :
    addBatch p b idx = { p with stores := b.foldl (stepL idx) p.stores } := by
  unfold addBatch
  apply foldl_pool_step
  intro p nv
  unfold stepL
  simp only [getStore_eq_look]
  cases h : look p.stores nv.1 with
  | none => rfl
  | some st =>
    simp only
    unfold upd
    split <;> rfl

theorem addBatch_eq (p : Pool Val) (b : List (String × Val)) (idx : Nat)
    (hn : (p.stores.map (·.1)).Nodup) (hb : (b.map (·.1)).Nodup) :
    addBatch p b idx = { p with stores := p.stores.map (gmap idx b) } := by
  rw [addBatch_eq_foldl, foldl_stepL idx b hb _ hn]

theorem look_map_gmap (idx : Nat) (b : List (String × Val)) (l : List (String × Option (StoreC Val)))
    (node : String) :
    look (l.map (gmap idx b)) node = (look l node).map (fun st => (gmap idx b (node, st)).2) := by
  induction l with
  | nil => rfl
  | cons e t ih =>
    rw [List.map_cons, look_cons, look_cons, gmap_fst, ih]
    cases h : (e.1 == node)
    · simp
    · have h1 : e.1 = node := by simpa using h
      obtain ⟨k, v⟩ := e
      simp only at h1
      subst h1
      simp

theorem add_batch_records' (p : Pool Val) (batch : List (String × Val)) (idx : Nat)
    (hn : (p.stores.map (·.1)).Nodup) (hb : (batch.map (·.1)).Nodup) (node : String) (st : Option (StoreC Val))
    (hst : getStore p node = some st) :
    (addBatch p batch idx).stores.map (·.1) = p.stores.map (·.1) ∧
    ∃ s', getStore (addBatch p batch idx) node = some s' ∧
      (∀ j, j ≠ idx → lookupI (s'.getD []) j = lookupI (st.getD []) j) ∧
      lookupI (s'.getD []) idx =
        (match lookupI (st.getD []) idx with
         | some v₀ => some v₀
         | none => batchVal batch node) := by
  rw [addBatch_eq p batch idx hn hb]
  refine ⟨keys_map_of_fst _ (gmap_fst idx batch) _, (gmap idx batch (node, st)).2, ?_, ?_⟩
  · rw [getStore_eq_look] at hst ⊢
    simp only
    rw [look_map_gmap, hst]; rfl
  · unfold gmap
    simp only
    cases hbv : batchVal batch node with
    | none =>
      refine ⟨fun _ _ => rfl, ?_⟩
      cases lookupI (st.getD []) idx <;> rfl
    | some v =>
      simp only [Option.getD_some]
      exact ⟨fun j hj => lookupI_upd_ne _ _ _ _ hj, lookupI_upd_same _ _ _⟩

/-! ### `fillFrom` as a map over the stores -/

def Gmap : Nat → List (List (String × Val)) → String × Option (StoreC Val) → String × Option (StoreC Val)
  | _, [], e => e
  | start, b :: bs, e => Gmap (start + 1) bs (gmap start b e)

theorem Gmap_fst (bs : List (List (String × Val))) :
    ∀ (start : Nat) (e : String × Option (StoreC Val)), (Gmap start bs e).1 = e.1 := by
  induction bs with
  | nil => intro _ _; rfl
  | cons b bs ih => intro start e; rw [Gmap, ih, gmap_fst]

theorem fillFrom_eq (bs : List (List (String × Val))) (hb : ∀ b ∈ bs, (b.map (·.1)).Nodup) :
    ∀ (p : Pool Val) (start : Nat), (p.stores.map (·.1)).Nodup →
      fillFrom p start bs = { p with stores := p.stores.map (Gmap start bs) } := by
  induction bs with
  | nil =>
    intro p start _
    rw [fillFrom, List.map_congr_left (g := id)]
    · simp
    · intro e _; rfl
  | cons b bs ih =>
    intro p start hn
    have hb1 := hb b List.mem_cons_self
    rw [fillFrom, addBatch_eq p b start hn hb1, ih (fun x hx => hb x (List.mem_cons_of_mem _ hx))]
    · simp only [List.map_map]
      congr 1
    · simp only
      rw [keys_map_of_fst _ (gmap_fst start b)]; exact hn

theorem Gmap_spec (bs : List (List (String × Val))) :
    ∀ (start : Nat) (e0 : String × Option (StoreC Val)),
      (e0.2.getD []).map (·.1) = List.range start →
      (∀ b ∈ bs, (batchVal b e0.1).isSome) →
      ((Gmap start bs e0).2.getD []).map (·.1) = List.range (start + bs.length) ∧
      (∀ j, j < start → lookupI ((Gmap start bs e0).2.getD []) j = lookupI (e0.2.getD []) j) ∧
      ∀ i (hi : i < bs.length),
        lookupI ((Gmap start bs e0).2.getD []) (start + i) = batchVal (bs[i]'hi) e0.1 := by
  induction bs with
  | nil =>
    intro start e0 hk _
    refine ⟨by simpa [Gmap] using hk, fun _ _ => rfl, ?_⟩
    intro i hi; simp at hi
  | cons b bs ih =>
    intro start e0 hk hbv
    have hv := hbv b List.mem_cons_self
    obtain ⟨v, hv⟩ := Option.isSome_iff_exists.1 hv
    have hnone : lookupI (e0.2.getD []) start = none := by
      apply lookupI_none_of_notin
      rw [hk]; simp
    have he1 : gmap start b e0 = (e0.1, some (e0.2.getD [] ++ [(start, v)])) := by
      unfold gmap upd
      simp [hv, hnone]
    have hk1 : (((gmap start b e0).2).getD []).map (·.1) = List.range (start + 1) := by
      rw [he1]
      simp only [Option.getD_some, List.map_append, List.map_cons, List.map_nil, hk]
      rw [List.range_succ]
    have hbv1 : ∀ b' ∈ bs, (batchVal b' (gmap start b e0).1).isSome := by
      intro b' hb'
      rw [gmap_fst]
      exact hbv b' (List.mem_cons_of_mem _ hb')
    obtain ⟨h1, h2, h3⟩ := ih (start + 1) (gmap start b e0) hk1 hbv1
    have hl1 : ∀ j, lookupI ((gmap start b e0).2.getD []) j =
        match lookupI (e0.2.getD []) j with
        | some w => some w
        | none => if start == j then some v else none := by
      intro j
      rw [he1]
      simp only [Option.getD_some]
      exact lookupI_append_single _ _ _ _
    rw [Gmap]
    refine ⟨?_, ?_, ?_⟩
    · rw [h1, List.length_cons]
      congr 1; omega
    · intro j hj
      rw [h2 j (by omega), hl1 j]
      have : (start == j) = false := by
        simp only [beq_eq_false_iff_ne, ne_eq]; omega
      cases lookupI (e0.2.getD []) j <;> simp [this]
    · intro i hi
      cases i with
      | zero =>
        show lookupI _ start = _
        rw [h2 start (by omega), hl1 start, hnone]
        simp [hv]
      | succ i =>
        have hi' : i < bs.length := by simpa using hi
        have := h3 i hi'
        rw [gmap_fst] at this
        rw [show start + (i + 1) = start + 1 + i by omega, this]
        simp

theorem fill_holds_exactly' (p : Pool Val) (batches : List (List (String × Val)))
    (hn : (p.stores.map (·.1)).Nodup) (hfresh : ∀ e ∈ p.stores, e.2.getD [] = [])
    (hb : ∀ b ∈ batches, (b.map (·.1)).Nodup ∧ ∀ e ∈ p.stores, (batchVal b e.1).isSome) :
    let q := fillFrom p 0 batches
    q.stores.map (·.1) = p.stores.map (·.1) ∧
    ∀ e ∈ q.stores, (e.2.getD []).map (·.1) = List.range batches.length ∧
      ∀ i (hi : i < batches.length), lookupI (e.2.getD []) i = batchVal (batches[i]'hi) e.1 := by
  intro q
  have hq : q = { p with stores := p.stores.map (Gmap 0 batches) } :=
    fillFrom_eq batches (fun b hb' => (hb b hb').1) p 0 hn
  rw [hq]
  refine ⟨keys_map_of_fst _ (Gmap_fst batches 0) _, ?_⟩
  intro e he
  simp only [List.mem_map] at he
  obtain ⟨e0, he0, rfl⟩ := he
  obtain ⟨h1, _, h3⟩ := Gmap_spec batches 0 e0 (by rw [hfresh e0 he0]; rfl)
    (fun b hb' => (hb b hb').2 e0 he0)
  refine ⟨by simpa using h1, ?_⟩
  intro i hi
  have := h3 i hi
  rw [Nat.zero_add] at this
  rw [this, Gmap_fst]

/-! ### filling again -/

theorem setStore_id (l : List (String × Option (StoreC Val))) (hn : (l.map (·.1)).Nodup) (node : String)
    (s : Option (StoreC Val)) (h : look l node = some s) : setStore l node s = l := by
  unfold setStore
  rw [List.map_congr_left (g := id)]
  · simp
  · intro e he
    cases hh : (e.1 == node)
    · simp
    · have h1 : e.1 = node := by simpa using hh
      have h2 := look_of_mem_nodup l hn e he
      rw [h1, h] at h2
      have h3 : s = e.2 := by simpa using h2
      simp [h3]

theorem stepL_id (idx : Nat) (l : List (String × Option (StoreC Val))) (hn : (l.map (·.1)).Nodup)
    (hall : ∀ e ∈ l, ∃ s, e.2 = some s ∧ (lookupI s idx).isSome) (nv : String × Val) :
    stepL idx l nv = l := by
  unfold stepL
  cases h : look l nv.1 with
  | none => rfl
  | some st =>
    simp only
    obtain ⟨s, hs, hl⟩ := hall _ (look_some_mem _ _ _ h)
    simp only at hs
    subst hs
    have : upd ((some s).getD []) idx nv.2 = s := by
      unfold upd; simp [hl]
    rw [this]
    exact setStore_id l hn _ _ h

theorem addBatch_id (q : Pool Val) (idx : Nat) (hn : (q.stores.map (·.1)).Nodup)
    (hall : ∀ e ∈ q.stores, ∃ s, e.2 = some s ∧ (lookupI s idx).isSome) (b : List (String × Val)) :
    addBatch q b idx = q := by
  rw [addBatch_eq_foldl]
  have : b.foldl (stepL idx) q.stores = q.stores := by
    induction b with
    | nil => rfl
    | cons nv t ih => rw [List.foldl_cons, stepL_id idx _ hn hall, ih]
  rw [this]

theorem refill_id (q : Pool Val) (n : Nat) (hn : (q.stores.map (·.1)).Nodup)
    (hall : ∀ e ∈ q.stores, ∃ s, e.2 = some s ∧ s.map (·.1) = List.range n)
    (bs : List (List (String × Val))) :
    ∀ start, start + bs.length ≤ n → fillFrom q start bs = q := by
  induction bs with
  | nil => intro _ _; rfl
  | cons b bs ih =>
    intro start hle
    rw [List.length_cons] at hle
    rw [fillFrom, addBatch_id q start hn _ b]
    · exact ih (start + 1) (by omega)
    · intro e he
      obtain ⟨s, hs, hk⟩ := hall e he
      refine ⟨s, hs, lookupI_isSome_of_mem _ _ ?_⟩
      rw [hk]; simp; omega

theorem refill_changes_nothing' (p : Pool Val) (batches batches' : List (List (String × Val)))
    (hn : (p.stores.map (·.1)).Nodup) (hfresh : ∀ e ∈ p.stores, e.2.getD [] = [])
    (hb : ∀ b ∈ batches, (b.map (·.1)).Nodup ∧ ∀ e ∈ p.stores, (batchVal b e.1).isSome)
    (hlen : batches'.length ≤ batches.length) (hne : batches ≠ []) :
    fillFrom (fillFrom p 0 batches) 0 batches' = fillFrom p 0 batches := by
  obtain ⟨hk, hall⟩ := fill_holds_exactly' p batches hn hfresh hb
  apply refill_id _ batches.length (by rw [hk]; exact hn) _ batches' 0 (by omega)
  intro e he
  have h1 := (hall e he).1
  have hpos : 0 < batches.length := List.length_pos_iff.2 hne
  cases h2 : e.2 with
  | none =>
    rw [h2] at h1
    have := congrArg List.length h1
    simp at this
    omega
  | some s =>
    rw [h2] at h1
    exact ⟨s, rfl, by simpa using h1⟩

/-! ### `len` -/

theorem foldl_max_const (f : String × Option (StoreC Val) → Nat) (n : Nat)
    (l : List (String × Option (StoreC Val))) (h : ∀ e ∈ l, f e = n) :
    ∀ m0, l.foldl (fun m e => max m (f e)) m0 = if l = [] then m0 else max m0 n := by
  induction l with
  | nil => intro m0; rfl
  | cons x t ih =>
    intro m0
    rw [List.foldl_cons, ih (fun e he => h e (List.mem_cons_of_mem _ he)), h x List.mem_cons_self]
    by_cases ht : t = []
    · simp [ht]
    · simp [ht]

theorem len_contains_after_fill' (p : Pool Val) (batches : List (List (String × Val)))
    (hn : (p.stores.map (·.1)).Nodup) (hfresh : ∀ e ∈ p.stores, e.2.getD [] = []) (hne : p.stores ≠ [])
    (hb : ∀ b ∈ batches, (b.map (·.1)).Nodup ∧ ∀ e ∈ p.stores, (batchVal b e.1).isSome) (i : Nat) :
    len (fillFrom p 0 batches) = batches.length ∧ (contains (fillFrom p 0 batches) i = decide (i < batches.length)) := by
  obtain ⟨hk, hall⟩ := fill_holds_exactly' p batches hn hfresh hb
  have hlen : len (fillFrom p 0 batches) = batches.length := by
    unfold len
    rw [foldl_max_const _ batches.length]
    · have : (fillFrom p 0 batches).stores ≠ [] := by
        intro h
        rw [h] at hk
        exact hne (List.map_eq_nil_iff.1 hk.symm)
      simp [this]
    · intro e he
      have h1 := congrArg List.length (hall e he).1
      simp only [List.length_map, List.length_range] at h1
      rw [← h1]
      cases e.2 <;> rfl
  refine ⟨hlen, ?_⟩
  unfold contains
  rw [hlen]

end ElfiVerif.Pool
