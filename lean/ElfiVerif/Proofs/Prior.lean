import ElfiVerif.Model.Prior
import Mathlib.Algebra.Order.Field.Basic
import Mathlib.Algebra.BigOperators.Group.List.Basic
import Mathlib.Analysis.SpecialFunctions.Log.Basic
import Mathlib.Data.List.Perm.Basic
import Mathlib.Tactic.Ring
import Mathlib.Tactic.Linarith

/-! Proofs for C08 (statements are repeated in Props/C08.lean). -/
namespace ElfiVerif.Prior

variable {K : Type} [Field K] [LinearOrder K] [IsStrictOrderedRing K]

-- the statements below are fixed (mirrored in Props/C08.lean) and keep the ordered-field instances
set_option linter.unusedSectionVars false

omit [LinearOrder K] [IsStrictOrderedRing K] in
theorem foldl_mul_eq (l : List K) (a : K) : l.foldl (· * ·) a = a * l.prod := by
  induction l generalizing a with
  | nil => simp
  | cons b l ih => simp only [List.foldl_cons, ih, List.prod_cons, mul_assoc]

omit [LinearOrder K] [IsStrictOrderedRing K] in
theorem foldl_add_eq (l : List K) (a : K) : l.foldl (· + ·) a = a + l.sum := by
  induction l generalizing a with
  | nil => simp
  | cons b l ih => simp only [List.foldl_cons, ih, List.sum_cons, add_assoc]

theorem prior_is_product' (pdf : Nat → K → List K → K) (requested : List (PNode K)) (x : List K) (dflt : K)
    (hne : requested ≠ []) :
    joint (· * ·) pdf requested x dflt =
      some (terms pdf requested (query (requested.map (·.name)) x dflt)).prod := by
  cases requested with
  | nil => exact absurd rfl hne
  | cons n rest =>
    simp only [joint, terms, List.map_cons, reduce1, foldl_mul_eq, List.prod_cons]

theorem log_is_sum' (lpdf : Nat → K → List K → K) (requested : List (PNode K)) (x : List K) (dflt : K)
    (hne : requested ≠ []) :
    joint (· + ·) lpdf requested x dflt =
      some (terms lpdf requested (query (requested.map (·.name)) x dflt)).sum := by
  cases requested with
  | nil => exact absurd rfl hne
  | cons n rest =>
    simp only [joint, terms, List.map_cons, reduce1, foldl_add_eq, List.sum_cons]

theorem log_of_product' (l : List ℝ) (hpos : ∀ a ∈ l, 0 < a) : Real.log l.prod = (l.map Real.log).sum := by
  induction l with
  | nil => simp
  | cons a l ih =>
    have ha : 0 < a := hpos a (by simp)
    have hl : ∀ b ∈ l, 0 < b := fun b hb => hpos b (by simp [hb])
    have hp : 0 < l.prod := List.prod_pos hl
    rw [List.prod_cons, Real.log_mul ha.ne' hp.ne', ih hl, List.map_cons, List.sum_cons]

set_option linter.unusedVariables false in
theorem zero_iff_some_zero' (l : List K) (hnn : ∀ a ∈ l, 0 ≤ a) : l.prod = 0 ↔ ∃ a ∈ l, a = 0 := by
  rw [List.prod_eq_zero_iff]
  constructor
  · intro h; exact ⟨0, h, rfl⟩
  · rintro ⟨a, ha, rfl⟩; exact ha

/-- lookup by key in an association list with distinct keys -/
theorem find_key_eq_some_iff (l : List (Nat × K)) (hnd : (l.map (·.1)).Nodup) (k : Nat) (p : Nat × K) :
    l.find? (fun p => p.1 == k) = some p ↔ p ∈ l ∧ p.1 = k := by
  induction l with
  | nil => simp
  | cons q l ih =>
    rw [List.map_cons, List.nodup_cons] at hnd
    rw [List.find?_cons]
    by_cases hq : q.1 = k
    · have : (q.1 == k) = true := by simpa using hq
      rw [this]
      constructor
      · intro h
        have : q = p := by simpa using h
        subst this
        exact ⟨by simp, hq⟩
      · rintro ⟨hmem, hpk⟩
        rcases List.mem_cons.1 hmem with h | h
        · rw [h]
        · exfalso
          apply hnd.1
          rw [hq, ← hpk]
          exact List.mem_map_of_mem h
    · have : (q.1 == k) = false := by simpa using hq
      rw [this]
      simp only []
      rw [ih hnd.2]
      constructor
      · rintro ⟨hmem, hpk⟩; exact ⟨List.mem_cons_of_mem _ hmem, hpk⟩
      · rintro ⟨hmem, hpk⟩
        rcases List.mem_cons.1 hmem with h | h
        · subst h; exact absurd hpk hq
        · exact ⟨h, hpk⟩

theorem find_key_perm (l l' : List (Nat × K)) (hp : l.Perm l') (hnd : (l.map (·.1)).Nodup) (k : Nat) :
    l.find? (fun p => p.1 == k) = l'.find? (fun p => p.1 == k) := by
  have hnd' : (l'.map (·.1)).Nodup := (hp.map _).nodup_iff.1 hnd
  apply Option.ext
  intro p
  rw [find_key_eq_some_iff l hnd, find_key_eq_some_iff l' hnd', hp.mem_iff]

theorem prior_is_product_perm' (pdf : Nat → K → List K → K) (requested : List (PNode K)) (x : List K) (dflt : K)
    (hlen : x.length = requested.length) (hnd : (requested.map (·.name)).Nodup)
    (σ : List (PNode K × K)) (hσ : σ.Perm (requested.zip x)) (hne : requested ≠ []) :
    joint (· * ·) pdf (σ.map (·.1)) (σ.map (·.2)) dflt = joint (· * ·) pdf requested x dflt := by
  have hfst : (σ.map (·.1)).Perm requested := by
    have h := hσ.map Prod.fst
    rwa [List.map_fst_zip (by omega)] at h
  have hne' : σ.map (·.1) ≠ [] := by
    intro h
    rw [h] at hfst
    exact hne hfst.symm.eq_nil
  rw [prior_is_product' pdf _ _ dflt hne', prior_is_product' pdf _ _ dflt hne]
  -- the two query functions coincide
  have hq : query ((σ.map (·.1)).map (·.name)) (σ.map (·.2)) dflt
      = query (requested.map (·.name)) x dflt := by
    funext n
    unfold query
    have e1 : ((σ.map (·.1)).map (·.name)).zip (σ.map (·.2))
        = σ.map (fun p => (p.1.name, p.2)) := by
      rw [List.map_map, List.zip_map']
      rfl
    have e2 : (requested.map (·.name)).zip x
        = (requested.zip x).map (fun p => (p.1.name, p.2)) := by
      rw [List.zip_map_left]
      rfl
    rw [e1, e2]
    have hperm := hσ.map (fun p : PNode K × K => (p.1.name, p.2))
    have hnd2 : (((requested.zip x).map (fun p => (p.1.name, p.2))).map (·.1)).Nodup := by
      rw [← e2, List.map_fst_zip (by simp; omega)]
      exact hnd
    rw [find_key_perm _ _ hperm ((hperm.map _).nodup_iff.2 hnd2) n]
  rw [hq]
  congr 1
  apply List.Perm.prod_eq
  unfold terms
  exact hfst.map _

theorem query_column' (names : List Nat) (x : List K) (dflt : K) (hlen : x.length = names.length)
    (hnd : names.Nodup) (i : Nat) (hi : i < names.length) :
    query names x dflt (names[i]) = x[i]'(hlen ▸ hi) := by
  induction names generalizing x i with
  | nil => simp at hi
  | cons a names ih =>
    cases x with
    | nil => simp at hlen
    | cons b x =>
      rw [List.nodup_cons] at hnd
      cases i with
      | zero => simp [query]
      | succ i =>
        have hi' : i < names.length := by simpa using hi
        have hlen' : x.length = names.length := by simpa using hlen
        have hne : a ≠ names[i] := by
          intro h
          apply hnd.1
          rw [h]
          exact List.getElem_mem hi'
        have hb : (a == names[i]) = false := by simpa using hne
        have := ih x hlen' hnd.2 i hi'
        simp only [query, List.zip_cons_cons, List.find?_cons, List.getElem_cons_succ, hb] at this ⊢
        exact this

theorem subset_includes_unrequested' :
    let pdf : Nat → Rat → List Rat → Rat := fun n v _ => if n = 1 then v else 1 / 4
    let t1 : PNode Rat := ⟨1, []⟩
    let t2 : PNode Rat := ⟨2, []⟩
    jointOld (· * ·) pdf [t1, t2] [t1] [3] (fun _ => 7) 0 = some (3 * (1 / 4)) ∧
    joint (· * ·) pdf [t1] [3] 0 = some 3 := by
  norm_num [jointOld, joint, reduce1, terms, query, argVal]

end ElfiVerif.Prior
