import ElfiVerif.Model.Rejection
import Mathlib.Order.WithBot
import Mathlib.Order.BoundedOrder.Basic
import Mathlib.Data.List.Basic
import Mathlib.Data.List.Nodup
import Mathlib.Data.List.Perm.Basic
import Mathlib.Data.List.Perm.Subperm
import Mathlib.Tactic.Linarith
import Mathlib.Tactic.Ring

/-! Specification vocabulary and proofs for C01 (statements are repeated in Props/C01.lean). -/
namespace ElfiVerif.Rejection

variable {κ : Type} [LinearOrder κ] [OrderTop κ]

/-- `sort` returns a permutation of its input that is ascending in the discrepancy -/
def SortOK (sort : List (Slot κ) → List (Slot κ)) : Prop :=
  ∀ l, (sort l).Perm l ∧ (sort l).Pairwise (fun a b => a.key ≤ b.key)

/-- the first `k` batches are well-formed: `b` draws each, all real, identities globally distinct -/
def BatchesOK (batch : Nat → List (Slot κ)) (b k : Nat) : Prop :=
  (∀ i, i < k → (batch i).length = b) ∧ (∀ s ∈ consumed batch k, s.origin.isSome = true) ∧
    ((consumed batch k).map (·.origin)).Nodup

/-- the property, for the rows `out` returned from the consumed draws `cons` -/
def ExtractSpec (thr : Option κ) (n : Nat) (cons out : List (Slot κ)) (threshold : Option κ) : Prop :=
  out.length = n ∧
  (∀ s ∈ out, s.origin.isSome = true ∧ s ∈ cons ∧ accepted thr s = true) ∧
  (out.map (·.origin)).Nodup ∧
  out.Pairwise (fun a b => a.key ≤ b.key) ∧
  (∀ c ∈ cons, accepted thr c = true → c ∉ out → ∀ s ∈ out, s.key ≤ c.key) ∧
  threshold = out.getLast?.map (·.key)

/-! ### the concrete sort -/

omit [OrderTop κ] in
theorem insertByKey_perm (s : Slot κ) (l : List (Slot κ)) :
    (insertByKey s l).Perm (s :: l) := by
  induction l with
  | nil => exact List.Perm.refl _
  | cons q qs ih =>
    simp only [insertByKey]
    split
    · exact List.Perm.refl _
    · exact (List.Perm.cons q ih).trans (List.Perm.swap s q qs)

omit [OrderTop κ] in
theorem insertByKey_sorted (s : Slot κ) (l : List (Slot κ))
    (h : l.Pairwise (fun a b => a.key ≤ b.key)) :
    (insertByKey s l).Pairwise (fun a b => a.key ≤ b.key) := by
  induction l with
  | nil => simp [insertByKey]
  | cons q qs ih =>
    rw [List.pairwise_cons] at h
    simp only [insertByKey]
    split
    · rename_i hle
      refine List.pairwise_cons.2 ⟨?_, List.pairwise_cons.2 h⟩
      intro x hx
      rcases List.mem_cons.1 hx with rfl | hx
      · exact hle
      · exact le_trans hle (h.1 x hx)
    · rename_i hnle
      refine List.pairwise_cons.2 ⟨?_, ih h.2⟩
      intro x hx
      have := (insertByKey_perm s qs).subset hx
      rcases List.mem_cons.1 this with rfl | hx
      · exact le_of_lt (not_le.1 hnle)
      · exact h.1 x hx

set_option linter.unusedSectionVars false in
theorem sortByKey_ok' : SortOK (sortByKey (κ := κ)) := by
  intro l
  induction l with
  | nil => simp [sortByKey]
  | cons a l ih =>
    have e : sortByKey (a :: l) = insertByKey a (sortByKey l) := rfl
    rw [e]
    exact ⟨(insertByKey_perm a _).trans (List.Perm.cons a ih.1), insertByKey_sorted a _ ih.2⟩

/-! ### invariant -/

omit [OrderTop κ] in
/-- in a sorted list, a downward closed predicate holding `n` times holds on the first `n` slots -/
theorem take_of_countP (p : Slot κ → Bool)
    (hp : ∀ a b : Slot κ, a.key ≤ b.key → p b = true → p a = true) :
    ∀ (L : List (Slot κ)) (n : Nat), L.Pairwise (fun a b => a.key ≤ b.key) → n ≤ L.countP p →
      ∀ s ∈ L.take n, p s = true := by
  intro L
  induction L with
  | nil => intro n _ _ s hs; simp at hs
  | cons h t ih =>
    intro n hsort hcnt s hs
    cases n with
    | zero => simp at hs
    | succ n =>
      rw [List.pairwise_cons] at hsort
      by_cases hph : p h = true
      · rw [List.countP_cons_of_pos hph] at hcnt
        rw [List.take_succ_cons] at hs
        rcases List.mem_cons.1 hs with rfl | hs
        · exact hph
        · exact ih n hsort.2 (by omega) s hs
      · exfalso
        rw [List.countP_cons_of_neg hph] at hcnt
        have : t.countP p = 0 := by
          rw [List.countP_eq_zero]
          intro a ha hpa
          exact hph (hp h a (hsort.1 a ha) hpa)
        omega

structure Inv (c : Cfg κ) (cons buf : List (Slot κ)) : Prop where
  len : buf.length = c.n + c.b
  sorted : buf.Pairwise (fun a b => a.key ≤ b.key)
  top : ∀ s ∈ buf, s.origin = none → s.key = ⊤
  real : (buf.filter (fun s => s.origin.isSome)).Subperm (cons.filter (accepted c.thr))
  dropped : ∀ x ∈ cons, accepted c.thr x = true → x ∉ buf → ∀ s ∈ buf.take c.n, s.key ≤ x.key

theorem inv_init (c : Cfg κ) : Inv c [] (initBuf ⊤ c.n c.b) := by
  refine ⟨by simp [initBuf], ?_, ?_, ?_, ?_⟩
  · simp [initBuf, List.pairwise_replicate]
  · intro s hs _
    rw [initBuf] at hs
    rw [List.eq_of_mem_replicate hs]
  · have : (initBuf (⊤ : κ) c.n c.b).filter (fun s => s.origin.isSome) = [] := by
      rw [List.filter_eq_nil_iff]
      intro s hs
      rw [initBuf] at hs
      rw [List.eq_of_mem_replicate hs]
      simp
    rw [this]
    exact List.nil_subperm
  · intro x hx
    simp at hx

theorem inv_step (sort : List (Slot κ) → List (Slot κ)) (hs : SortOK sort) (c : Cfg κ)
    (cons bt buf : List (Slot κ)) (h : Inv c cons buf) (hlen : bt.length = c.b)
    (hreal : ∀ s ∈ bt, s.origin.isSome = true) :
    Inv c (cons ++ bt) (mergeBatch sort c.thr buf bt) := by
  have hacc : (bt.filter (accepted c.thr)).length ≤ c.b := hlen ▸ List.length_filter_le _ _
  have hperm : (mergeBatch sort c.thr buf bt).Perm
      (buf.take (buf.length - (bt.filter (accepted c.thr)).length) ++ bt.filter (accepted c.thr)) :=
    (hs _).1
  have hsorted : (mergeBatch sort c.thr buf bt).Pairwise (fun a b => a.key ≤ b.key) := (hs _).2
  generalize mergeBatch sort c.thr buf bt = buf' at hperm hsorted
  generalize hacc_def : bt.filter (accepted c.thr) = acc at hperm hacc
  have hm : c.n ≤ buf.length - acc.length := by rw [h.len]; omega
  generalize hm_def : buf.length - acc.length = m at hperm hm
  have hmle : m ≤ buf.length := by omega
  have hkept_n : (buf.take m).take c.n = buf.take c.n := by
    rw [List.take_take, Nat.min_eq_left hm]
  refine ⟨?_, hsorted, ?_, ?_, ?_⟩
  · rw [hperm.length_eq, List.length_append, List.length_take, h.len]
    rw [h.len] at hm_def
    omega
  · intro s hs' hnone
    rcases List.mem_append.1 (hperm.subset hs') with hk | ha
    · exact h.top s (List.mem_of_mem_take hk) hnone
    · rw [← hacc_def] at ha
      have := hreal s (List.mem_filter.1 ha).1
      rw [hnone] at this
      simp at this
  · rw [(hperm.filter _).subperm_right, List.filter_append, List.filter_append, hacc_def]
    apply List.Subperm.append
    · exact (((List.take_sublist m buf).filter _).subperm).trans h.real
    · have : acc.filter (fun s => s.origin.isSome) = acc := by
        rw [List.filter_eq_self]
        intro a ha
        rw [← hacc_def] at ha
        exact hreal a (List.mem_filter.1 ha).1
      rw [this]
  · intro x hx hax hxn
    have hxn' : x ∉ buf.take m ++ acc := fun hmem => hxn (hperm.symm.subset hmem)
    rw [List.mem_append, not_or] at hxn'
    rcases List.mem_append.1 hx with hxc | hxb
    · have hle : ∀ s ∈ buf.take c.n, s.key ≤ x.key := by
        by_cases hxbuf : x ∈ buf
        · intro s hs'
          have hs'' : s ∈ buf.take m := by
            rw [← hkept_n] at hs'
            exact List.mem_of_mem_take hs'
          have hxd : x ∈ buf.drop m := by
            rw [← List.take_append_drop m buf, List.mem_append] at hxbuf
            exact hxbuf.resolve_left hxn'.1
          have hso := h.sorted
          rw [← List.take_append_drop m buf, List.pairwise_append] at hso
          exact hso.2.2 s hs'' x hxd
        · exact h.dropped x hxc hax hxbuf
      have hcnt : c.n ≤ buf'.countP (fun s => decide (s.key ≤ x.key)) := by
        rw [hperm.countP_eq, List.countP_append]
        have h1 : (buf.take c.n).countP (fun s => decide (s.key ≤ x.key)) = (buf.take c.n).length := by
          rw [List.countP_eq_length]
          intro a ha
          simpa using hle a ha
        have h2 : (buf.take c.n).length = c.n := by
          rw [List.length_take]; omega
        have h3 := (List.take_sublist c.n (buf.take m)).countP_le (p := fun s => decide (s.key ≤ x.key))
        rw [hkept_n] at h3
        omega
      intro s hs'
      have := take_of_countP (fun s => decide (s.key ≤ x.key))
        (fun a b hab hb => by simp at hb ⊢; exact le_trans hab hb) buf' c.n hsorted hcnt s hs'
      simpa using this
    · exfalso
      apply hxn'.2
      rw [← hacc_def]
      exact List.mem_filter.2 ⟨hxb, hax⟩

omit [OrderTop κ] in
theorem subperm_map_nodup {α β : Type} (f : α → β) {l₁ l₂ : List α} (h : l₁.Subperm l₂)
    (hnd : (l₂.map f).Nodup) : (l₁.map f).Nodup := by
  obtain ⟨l, hp, hsub⟩ := h
  exact (hp.map f).nodup_iff.1 ((hsub.map f).nodup hnd)

theorem inv_final (c : Cfg κ) (cons buf : List (Slot κ)) (h : Inv c cons buf) (hn : 0 < c.n)
    (hnd : (cons.map (·.origin)).Nodup)
    (henough : c.n ≤ (cons.filter (fun s => accepted c.thr s && decide (s.key < ⊤))).length) :
    ExtractSpec c.thr c.n cons (buf.take c.n) ((buf[c.n - 1]?).map (·.key)) := by
  have hlen : (buf.take c.n).length = c.n := by
    rw [List.length_take, h.len]; omega
  -- every returned slot has a finite key
  have hfin : ∀ s ∈ buf.take c.n, s.key < ⊤ := by
    generalize hF : cons.filter (fun s => accepted c.thr s && decide (s.key < ⊤)) = F at henough
    have hFmem : ∀ f ∈ F, f ∈ cons ∧ accepted c.thr f = true ∧ f.key < ⊤ := by
      intro f hf
      rw [← hF, List.mem_filter] at hf
      simpa [Bool.and_eq_true] using hf
    by_cases hall : ∀ f ∈ F, f ∈ buf
    · have hFnd : F.Nodup := by
        rw [← hF]
        exact (List.Nodup.of_map _ hnd).filter _
      have hsp : F.Subperm buf := List.subperm_of_subset hFnd hall
      have h1 := hsp.countP_le (fun s => decide (s.key < ⊤))
      have h2 : F.countP (fun s => decide (s.key < ⊤)) = F.length := by
        rw [List.countP_eq_length]
        intro a ha
        simpa using (hFmem a ha).2.2
      intro s hs
      have := take_of_countP (fun s => decide (s.key < ⊤))
        (fun a b hab hb => by simp only [decide_eq_true_eq] at hb ⊢; exact lt_of_le_of_lt hab hb)
        buf c.n h.sorted (by omega) s hs
      simpa using this
    · obtain ⟨f, hf, hfb⟩ : ∃ f, f ∈ F ∧ f ∉ buf := by
        by_contra hcon
        exact hall (fun f hf => by
          by_contra hfb
          exact hcon ⟨f, hf, hfb⟩)
      obtain ⟨h1, h2, h3⟩ := hFmem f hf
      intro s hs
      exact lt_of_le_of_lt (h.dropped f h1 h2 hfb s hs) h3
  have hsome : ∀ s ∈ buf.take c.n, s.origin.isSome = true := by
    intro s hs
    by_contra hne
    have hnone : s.origin = none := by
      cases ho : s.origin with
      | none => rfl
      | some i => rw [ho] at hne; simp at hne
    have := h.top s (List.mem_of_mem_take hs) hnone
    exact absurd (hfin s hs) (by rw [this]; exact lt_irrefl _)
  have hsp : (buf.take c.n).Subperm (cons.filter (accepted c.thr)) := by
    have e : (buf.take c.n).filter (fun s => s.origin.isSome) = buf.take c.n :=
      List.filter_eq_self.2 hsome
    rw [← e]
    exact (((List.take_sublist c.n buf).filter _).subperm).trans h.real
  refine ⟨hlen, ?_, ?_, ?_, ?_, ?_⟩
  · intro s hs
    have := List.mem_filter.1 (hsp.subset hs)
    exact ⟨hsome s hs, this.1, this.2⟩
  · exact subperm_map_nodup _ (hsp.trans (List.filter_sublist).subperm) hnd
  · exact h.sorted.sublist (List.take_sublist _ _)
  · intro x hx hax hxn
    by_cases hxb : x ∈ buf
    · intro s hs
      have hxd : x ∈ buf.drop c.n := by
        rw [← List.take_append_drop c.n buf, List.mem_append] at hxb
        exact hxb.resolve_left hxn
      have hso := h.sorted
      rw [← List.take_append_drop c.n buf, List.pairwise_append] at hso
      exact hso.2.2 s hs x hxd
    · exact h.dropped x hx hax hxb
  · rw [List.getLast?_eq_getElem?, hlen, List.getElem?_take, if_pos (by omega)]

omit [OrderTop κ] in
theorem run_induct (sort : List (Slot κ) → List (Slot κ)) (est : Nat → Nat → Nat → Nat → Nat)
    (c : Cfg κ) (batch : Nat → List (Slot κ)) (P : St κ → Prop)
    (hstep : ∀ st, st.nBatches < st.obj → P st → P (step sort est c (batch st.nBatches) st)) :
    ∀ fuel st st', P st → run sort est c batch fuel st = some st' →
      P st' ∧ st'.obj ≤ st'.nBatches := by
  intro fuel
  induction fuel with
  | zero => intro st st' _ h; simp [run] at h
  | succ f ih =>
    intro st st' hP h
    rw [run] at h
    split at h
    · rename_i hle
      cases h
      exact ⟨hP, hle⟩
    · rename_i hnle
      exact ih _ _ (hstep st (by omega) hP) h

omit [OrderTop κ] in
theorem step_obj_none (sort : List (Slot κ) → List (Slot κ)) (est : Nat → Nat → Nat → Nat → Nat)
    (c : Cfg κ) (bt : List (Slot κ)) (st : St κ) (hthr : c.thr = none) :
    (step sort est c bt st).obj = st.obj := by
  simp [step, hthr]

omit [OrderTop κ] in
theorem step_nBatches (sort : List (Slot κ) → List (Slot κ)) (est : Nat → Nat → Nat → Nat → Nat)
    (c : Cfg κ) (bt : List (Slot κ)) (st : St κ) :
    (step sort est c bt st).nBatches = st.nBatches + 1 := rfl


omit [LinearOrder κ] [OrderTop κ] in
theorem consumed_succ (batch : Nat → List (Slot κ)) (k : Nat) :
    consumed batch (k + 1) = consumed batch k ++ batch k := by
  simp [consumed, List.range_succ, List.flatMap_append]

omit [LinearOrder κ] [OrderTop κ] in
theorem BatchesOK.pred {batch : Nat → List (Slot κ)} {b k : Nat} (h : BatchesOK batch b (k + 1)) :
    BatchesOK batch b k ∧ (batch k).length = b ∧ ∀ s ∈ batch k, s.origin.isSome = true := by
  obtain ⟨h1, h2, h3⟩ := h
  rw [consumed_succ] at h2 h3
  refine ⟨⟨fun i hi => h1 i (by omega), fun s hs => h2 s (List.mem_append_left _ hs), ?_⟩,
    h1 k (by omega), fun s hs => h2 s (List.mem_append_right _ hs)⟩
  rw [List.map_append] at h3
  exact (List.nodup_append.1 h3).1

/-- the invariant along a run, conditional on the well-formedness of the batches consumed so far -/
def RunInv (c : Cfg κ) (batch : Nat → List (Slot κ)) (st : St κ) : Prop :=
  BatchesOK batch c.b st.nBatches → Inv c (consumed batch st.nBatches) st.buf

theorem runInv_init (c : Cfg κ) (batch : Nat → List (Slot κ)) : RunInv c batch (initSt ⊤ c) := by
  intro _
  exact inv_init c

theorem runInv_step (sort : List (Slot κ) → List (Slot κ)) (hs : SortOK sort)
    (est : Nat → Nat → Nat → Nat → Nat) (c : Cfg κ) (batch : Nat → List (Slot κ)) (st : St κ)
    (h : RunInv c batch st) : RunInv c batch (step sort est c (batch st.nBatches) st) := by
  intro hb
  rw [step_nBatches] at hb
  obtain ⟨hb1, hb2, hb3⟩ := hb.pred
  rw [step_nBatches, consumed_succ]
  exact inv_step sort hs c _ _ _ (h hb1) hb2 hb3

/-! ### main theorem -/

set_option linter.unusedVariables false in
theorem extract_spec' (sort : List (Slot κ) → List (Slot κ)) (hs : SortOK sort)
    (est : Nat → Nat → Nat → Nat → Nat) (c : Cfg κ) (batch : Nat → List (Slot κ)) (fuel : Nat)
    (st : St κ) (hn : 0 < c.n) (hb : 0 < c.b)
    (hrun : run sort est c batch fuel (initSt ⊤ c) = some st)
    (hbat : BatchesOK batch c.b st.nBatches)
    (henough : c.n ≤ ((consumed batch st.nBatches).filter
        (fun s => accepted c.thr s && decide (s.key < ⊤))).length) :
    ExtractSpec c.thr c.n (consumed batch st.nBatches) (extract c st).rows (extract c st).threshold
      ∧ (extract c st).nSim = c.b * st.nBatches ∧ (extract c st).nBatches = st.nBatches := by
  have hinv := (run_induct sort est c batch (RunInv c batch)
    (fun st _ h => runInv_step sort hs est c batch st h) fuel _ st (runInv_init c batch) hrun).1 hbat
  exact ⟨inv_final c _ _ hinv hn hbat.2.2 henough, Nat.mul_comm _ _, rfl⟩

/-! ### budget mode -/

set_option linter.unusedVariables false in
theorem budget_batches' (sort : List (Slot κ) → List (Slot κ)) (est : Nat → Nat → Nat → Nat → Nat)
    (c : Cfg κ) (batch : Nat → List (Slot κ)) (s : Nat) (hthr : c.thr = none) (hs : c.nSim = some s)
    (hs0 : 0 < s) (hb : 0 < c.b) :
    ∃ st, run sort est c batch ((s + c.b - 1) / c.b + 1) (initSt ⊤ c) = some st ∧
      st.nBatches = (s + c.b - 1) / c.b ∧
      ∀ fuel st', run sort est c batch fuel (initSt ⊤ c) = some st' → st'.nBatches = (s + c.b - 1) / c.b := by
  set N := (s + c.b - 1) / c.b with hN
  have hobj : (initSt ⊤ c).obj = N := by
    simp only [initSt, initObj, hs]
    rw [if_neg (by omega)]
  have hnb : (initSt ⊤ c).nBatches = 0 := rfl
  have hex : ∀ d (st : St κ), st.obj = N → st.nBatches + d = N →
      ∃ st', run sort est c batch (d + 1) st = some st' ∧ st'.nBatches = N := by
    intro d
    induction d with
    | zero =>
      intro st h1 h2
      refine ⟨st, ?_, by omega⟩
      rw [run, if_pos (by omega)]
    | succ d ih =>
      intro st h1 h2
      rw [run, if_neg (by omega)]
      apply ih
      · rw [step_obj_none _ _ _ _ _ hthr]; exact h1
      · rw [step_nBatches]; omega
  obtain ⟨st, h1, h2⟩ := hex N (initSt ⊤ c) hobj (by rw [hnb]; omega)
  refine ⟨st, h1, h2, ?_⟩
  intro fuel st' hrun
  have := run_induct sort est c batch (fun st => st.obj = N ∧ st.nBatches ≤ N) ?_ fuel _ st'
    ⟨hobj, by rw [hnb]; omega⟩ hrun
  · obtain ⟨⟨h3, h4⟩, h5⟩ := this
    omega
  · intro st hlt ⟨h3, h4⟩
    rw [step_obj_none _ _ _ _ _ hthr, step_nBatches]
    exact ⟨h3, by omega⟩

/-! ### threshold mode -/

omit [OrderTop κ] in
theorem step_obj_some (sort : List (Slot κ) → List (Slot κ)) (est : Nat → Nat → Nat → Nat → Nat)
    (c : Cfg κ) (bt : List (Slot κ)) (st : St κ) (t : κ) (hthr : c.thr = some t) :
    (step sort est c bt st).obj =
      if (step sort est c bt st).buf.countP (fun s => decide (s.key ≤ t)) = 0 then st.obj + 1
      else est c.n ((step sort est c bt st).buf.countP (fun s => decide (s.key ≤ t)))
        ((st.nBatches + 1) * c.b) c.b := by
  obtain ⟨n, b, thr, nSim, mpb⟩ := c
  simp only at hthr
  subst hthr
  rfl

set_option linter.unusedVariables false in
theorem threshold_finishes_full' (sort : List (Slot κ) → List (Slot κ)) (hs : SortOK sort)
    (est : Nat → Nat → Nat → Nat → Nat) (c : Cfg κ) (batch : Nat → List (Slot κ)) (fuel : Nat)
    (st : St κ) (t : κ) (hthr : c.thr = some t) (ht : t < ⊤) (hn : 0 < c.n) (hb : 0 < c.b)
    (hobj : 0 < initObj c)
    (hest : ∀ nAcc nb, 0 < nAcc → nAcc < c.n → nb < est c.n nAcc (nb * c.b) c.b)
    (hrun : run sort est c batch fuel (initSt ⊤ c) = some st)
    (hbat : BatchesOK batch c.b st.nBatches) :
    c.n ≤ ((consumed batch st.nBatches).filter
        (fun s => accepted c.thr s && decide (s.key < ⊤))).length := by
  have hfin := run_induct sort est c batch
    (fun st => RunInv c batch st ∧
      (st.nBatches < st.obj ∨ c.n ≤ st.buf.countP (fun s => decide (s.key ≤ t)))) ?_
    fuel _ st ⟨runInv_init c batch, Or.inl hobj⟩ hrun
  · obtain ⟨⟨hinv, hor⟩, hstop⟩ := hfin
    have hcnt : c.n ≤ st.buf.countP (fun s => decide (s.key ≤ t)) := by
      rcases hor with h | h
      · omega
      · exact h
    have hI := hinv hbat
    generalize consumed batch st.nBatches = cons at hI ⊢
    have h1 := hI.real.countP_le (fun s => decide (s.key ≤ t))
    rw [List.countP_filter, List.countP_filter] at h1
    have h2 : st.buf.countP (fun s => decide (s.key ≤ t)) ≤
        st.buf.countP (fun a => decide (a.key ≤ t) && a.origin.isSome) := by
      apply List.countP_mono_left
      intro x hx hxt
      have hxt' : x.key ≤ t := by simpa using hxt
      have : x.origin.isSome = true := by
        cases ho : x.origin with
        | none =>
          have := hI.top x hx ho
          rw [this] at hxt'
          exact absurd (lt_of_le_of_lt hxt' ht) (lt_irrefl _)
        | some i => rfl
      simp [hxt', this]
    have h3 : cons.countP (fun a => decide (a.key ≤ t) && accepted c.thr a) ≤
        cons.countP (fun s => accepted c.thr s && decide (s.key < ⊤)) := by
      apply List.countP_mono_left
      intro x _ hxt
      rw [Bool.and_eq_true] at hxt
      have hxt' : x.key ≤ t := by simpa using hxt.1
      simp [hxt.2, lt_of_le_of_lt hxt' ht]
    rw [← List.countP_eq_length_filter]
    omega
  · intro st hlt ⟨hinv, _⟩
    refine ⟨runInv_step sort hs est c batch st hinv, ?_⟩
    rw [step_obj_some _ _ _ _ _ t hthr, step_nBatches]
    generalize (step sort est c (batch st.nBatches) st).buf.countP (fun s => decide (s.key ≤ t))
      = nAcc
    by_cases h0 : nAcc = 0
    · rw [if_pos h0]; left; omega
    · rw [if_neg h0]
      by_cases hlt' : nAcc < c.n
      · left; exact hest nAcc (st.nBatches + 1) (by omega) hlt'
      · right; omega

set_option linter.unusedSectionVars false in
theorem estExact_margin' (n nAcc nb b : Nat) (hb : 0 < b) (h0 : 0 < nAcc) (hlt : nAcc < n) :
    nb < estExact n nAcc (nb * b) b := by
  unfold estExact
  simp only [hlt, if_true]
  have hden : 0 < 5 * nAcc * b := by positivity
  rw [Nat.lt_iff_add_one_le, Nat.le_div_iff_mul_le hden]
  have h1 : nb * nAcc * b ≤ nb * n * b := by
    apply Nat.mul_le_mul_right
    apply Nat.mul_le_mul_left
    omega
  have h2 : 1 ≤ b * nAcc := Nat.mul_pos hb h0
  have e1 : (nb + 1) * (5 * nAcc * b) = 5 * (nb * nAcc * b) + 5 * nAcc * b := by ring
  have e2 : 5 * n * (nb * b) = 5 * (nb * n * b) := by ring
  rw [e1, e2]
  omega

/-! ### checker -/

theorem eraseDups_length_le {α : Type} [BEq α] :
    ∀ (k : Nat) (l : List α), l.length ≤ k → l.eraseDups.length ≤ l.length := by
  intro k
  induction k with
  | zero =>
    intro l hl
    have : l = [] := List.length_eq_zero_iff.1 (by omega)
    subst this; simp
  | succ k ih =>
    intro l hl
    cases l with
    | nil => simp
    | cons a as =>
      rw [List.eraseDups_cons, List.length_cons, List.length_cons]
      have h1 := List.length_filter_le (fun b => !b == a) as
      have h2 := ih (as.filter fun b => !b == a) (by simp only [List.length_cons] at hl; omega)
      omega

theorem eraseDups_length_iff {α : Type} [BEq α] [LawfulBEq α] :
    ∀ (k : Nat) (l : List α), l.length ≤ k → (l.eraseDups.length = l.length ↔ l.Nodup) := by
  intro k
  induction k with
  | zero =>
    intro l hl
    have : l = [] := List.length_eq_zero_iff.1 (by omega)
    subst this; simp
  | succ k ih =>
    intro l hl
    cases l with
    | nil => simp
    | cons a as =>
      simp only [List.length_cons] at hl
      rw [List.eraseDups_cons, List.length_cons, List.length_cons, List.nodup_cons]
      have h1 := List.length_filter_le (fun b => !b == a) as
      have h2 := eraseDups_length_le _ (as.filter fun b => !b == a) le_rfl
      have hfe : (as.filter fun b => !b == a) = as ↔ a ∉ as := by
        rw [List.filter_eq_self]
        constructor
        · intro h ha
          have := h a ha
          simp at this
        · intro h b hb
          have : b ≠ a := fun e => h (e ▸ hb)
          simpa using this
      constructor
      · intro h
        have hlen : (as.filter fun b => !b == a).length = as.length := by omega
        have hfil : (as.filter fun b => !b == a) = as :=
          (List.filter_sublist).eq_of_length hlen
        refine ⟨hfe.1 hfil, ?_⟩
        rw [hfil] at h
        exact (ih as (by omega)).1 (by omega)
      · rintro ⟨h3, h4⟩
        rw [hfe.2 h3, (ih as (by omega)).2 h4]

omit [OrderTop κ] in
theorem zip_tail_all_iff (l : List (Slot κ)) :
    (List.zip l l.tail).all (fun p => decide (p.1.key ≤ p.2.key)) = true ↔
      l.Pairwise (fun a b => a.key ≤ b.key) := by
  induction l with
  | nil => simp
  | cons a t ih =>
    cases t with
    | nil => simp
    | cons b t =>
      simp only [List.tail_cons, List.zip_cons_cons, List.all_cons, Bool.and_eq_true,
        decide_eq_true_eq] at ih ⊢
      rw [ih, List.pairwise_cons (a := a)]
      constructor
      · rintro ⟨hab, hp⟩
        refine ⟨?_, hp⟩
        intro x hx
        rcases List.mem_cons.1 hx with rfl | hx
        · exact hab
        · exact le_trans hab ((List.pairwise_cons.1 hp).1 x hx)
      · rintro ⟨h1, hp⟩
        exact ⟨h1 b (List.mem_cons_self ..), hp⟩

set_option linter.unusedSectionVars false in
theorem checkExtract_iff' (thr : Option κ) (n : Nat) (cons out : List (Slot κ)) (threshold : Option κ) :
    checkExtract thr n cons out threshold = true ↔ ExtractSpec thr n cons out threshold := by
  unfold checkExtract ExtractSpec
  simp only [Bool.and_eq_true, beq_iff_eq, and_assoc]
  refine and_congr Iff.rfl (and_congr ?_ (and_congr ?_ (and_congr (zip_tail_all_iff out)
    (and_congr ?_ Iff.rfl))))
  · simp only [List.all_eq_true, Bool.and_eq_true, List.contains_iff_mem, and_assoc]
  · rw [← List.length_map (as := out) (·.origin)]
    exact eraseDups_length_iff _ _ le_rfl
  · simp only [List.all_eq_true, Bool.or_eq_true, Bool.not_eq_true', List.contains_iff_mem,
      decide_eq_true_eq]
    constructor
    · intro h c hc hacc hno
      rcases h c hc with (h1 | h1) | h1
      · rw [hacc] at h1; cases h1
      · exact absurd h1 hno
      · exact h1
    · intro h c hc
      by_cases hacc : accepted thr c = true
      · by_cases hmem : c ∈ out
        · exact Or.inl (Or.inr hmem)
        · exact Or.inr (h c hc hacc hmem)
      · exact Or.inl (Or.inl (by simpa using hacc))

/-! ### counterexamples -/

set_option linter.unusedSectionVars false in
theorem inf_keys_return_uninitialised' :
    ∃ (c : Cfg (WithTop Nat)) (batch : Nat → List (Slot (WithTop Nat))) (r : Result (WithTop Nat)),
      c.thr = none ∧ BatchesOK batch c.b 2 ∧
      sample sortByKey estExact ⊤ c batch 10 = some r ∧ r.nBatches = 2 ∧
      ∃ s ∈ r.rows, s.origin = none := by
  refine ⟨⟨2, 1, none, some 2, 1⟩, fun i => [⟨⊤, some i⟩], ⟨[⟨⊤, none⟩, ⟨⊤, none⟩], some ⊤, 2, 2⟩, rfl, ?_, ?_, rfl, ⟨⊤, none⟩, ?_, rfl⟩
  · refine ⟨fun i _ => rfl, ?_, ?_⟩
    · decide
    · decide
  · rfl
  · decide

set_option linter.unusedSectionVars false in
theorem inf_threshold_stops_early' :
    ∃ (c : Cfg (WithTop Nat)) (batch : Nat → List (Slot (WithTop Nat))) (r : Result (WithTop Nat)),
      c.thr = some ⊤ ∧ c.n = 3 ∧ c.b = 1 ∧ (∀ k, BatchesOK batch c.b k) ∧
      sample sortByKey estExact ⊤ c batch 10 = some r ∧ r.nBatches = 1 ∧
      ∃ s ∈ r.rows, s.origin = none := by
  refine ⟨⟨3, 1, some ⊤, none, 1⟩, fun i => [⟨(i : ℕ), some i⟩],
    ⟨[⟨((0 : ℕ) : WithTop ℕ), some 0⟩, ⟨⊤, none⟩, ⟨⊤, none⟩], some ⊤, 1, 1⟩, rfl, rfl, rfl, ?_, ?_,
    rfl, ⟨⊤, none⟩, ?_, rfl⟩
  · intro k
    have hc : consumed (fun i => [(⟨(i : ℕ), some i⟩ : Slot (WithTop ℕ))]) k
        = (List.range k).map (fun i => (⟨(i : ℕ), some i⟩ : Slot (WithTop ℕ))) := by
      exact (List.map_eq_flatMap).symm
    refine ⟨fun i _ => rfl, ?_, ?_⟩
    · rw [hc]
      intro s hs
      obtain ⟨i, _, rfl⟩ := List.mem_map.1 hs
      rfl
    · rw [hc, List.map_map]
      exact List.Nodup.map (fun a b h => by simpa using h) List.nodup_range
  · rfl
  · decide

end ElfiVerif.Rejection
