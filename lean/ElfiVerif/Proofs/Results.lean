import ElfiVerif.Model.Results
import Mathlib.Algebra.Order.Field.Basic
import Mathlib.Algebra.BigOperators.Group.List.Basic
import Mathlib.Data.List.Perm.Basic
import Mathlib.Tactic.Ring
import Mathlib.Tactic.FieldSimp
import Mathlib.Tactic.Linarith

/-! Proofs for C16 (statements are repeated in Props/C16.lean). -/
namespace ElfiVerif.Results

variable {K : Type} [Field K] [LinearOrder K] [IsStrictOrderedRing K]

set_option linter.unusedSectionVars false

/-! ### helper lemmas -/

theorem sum_map_mul_left' {β : Type} (l : List β) (f : β → K) (c : K) :
    (l.map (fun x => c * f x)).sum = c * (l.map f).sum := by
  induction l with
  | nil => simp
  | cons x xs ih => simp only [List.map_cons, List.sum_cons, ih]; ring

theorem sum_zip_replicate (v : List K) (c : K) :
    ((v.zip (List.replicate v.length c)).map (fun p => p.1 * p.2)).sum = c * v.sum := by
  induction v with
  | nil => simp
  | cons x xs ih =>
    simp only [List.length_cons, List.replicate_succ, List.zip_cons_cons, List.map_cons,
      List.sum_cons, ih]
    ring

theorem sum_replicate' (n : Nat) (c : K) : (List.replicate n c).sum = (n : K) * c := by
  induction n with
  | zero => simp
  | succ n ih => simp only [List.replicate_succ, List.sum_cons, ih]; push_cast; ring

theorem sum_map_affine (l : List K) (a b : K) :
    (l.map (fun x => a * x + b)).sum = a * l.sum + (l.length : K) * b := by
  induction l with
  | nil => simp
  | cons x xs ih =>
    simp only [List.map_cons, List.sum_cons, ih, List.length_cons]; push_cast; ring

theorem length_cast_ne_zero {β : Type} {l : List β} (hl : l ≠ []) : ((l.length : Nat) : K) ≠ 0 :=
  Nat.cast_ne_zero.mpr (fun h => hl (List.length_eq_zero_iff.mp h))

theorem mean_map_affine (a b : K) (l : List K) (hl : l ≠ []) :
    mean (l.map (fun x => a * x + b)) = a * mean l + b := by
  have hn : ((l.length : Nat) : K) ≠ 0 := length_cast_ne_zero hl
  unfold mean
  rw [sum_map_affine, List.length_map]
  field_simp

theorem mean_map_mul_left {β : Type} (l : List β) (f : β → K) (c : K) :
    mean (l.map (fun x => c * f x)) = c * mean (l.map f) := by
  unfold mean
  rw [sum_map_mul_left', List.length_map, List.length_map, mul_div_assoc]

theorem var1_map_affine (a b : K) (l : List K) :
    var1 (l.map (fun x => a * x + b)) = a ^ 2 * var1 l := by
  by_cases hl : l = []
  · subst hl; simp [var1]
  · unfold var1
    rw [mean_map_affine a b l hl, List.map_map, List.length_map, ← mul_div_assoc,
      ← sum_map_mul_left']
    congr 2
    apply List.map_congr_left
    intro x _
    simp only [Function.comp]
    ring

theorem autocov_map_affine (a b : K) (l : List K) (lag : Nat) :
    autocov (l.map (fun x => a * x + b)) lag = a ^ 2 * autocov l lag := by
  by_cases hl : l = []
  · subst hl; simp [autocov]
  · unfold autocov
    simp only
    rw [mean_map_affine a b l hl, List.length_map, ← mul_div_assoc, ← sum_map_mul_left',
      ← List.map_drop, List.zip_map, List.map_map]
    congr 2
    apply List.map_congr_left
    intro x _
    simp only [Function.comp, Prod.map]
    ring

theorem mean_perm {l₁ l₂ : List K} (h : l₁.Perm l₂) : mean l₁ = mean l₂ := by
  unfold mean; rw [h.sum_eq, h.length_eq]

theorem var1_perm {l₁ l₂ : List K} (h : l₁.Perm l₂) : var1 l₁ = var1 l₂ := by
  unfold var1; rw [mean_perm h, (h.map _).sum_eq, h.length_eq]

/-- the three chain-level summaries that `rhoHat` depends on -/
theorem rhoHat_congr (c₁ c₂ : List (List K)) (n lag : Nat)
    (hW : varWithin c₁ = varWithin c₂) (hB : varBetween c₁ n = varBetween c₂ n)
    (hA : mean (c₁.map (fun c => autocov c lag)) = mean (c₂.map (fun c => autocov c lag))) :
    rhoHat c₁ n lag = rhoHat c₂ n lag := by
  unfold rhoHat varPooled
  rw [hW, hB, hA]

theorem rhoHat_scale (c₁ c₂ : List (List K)) (n lag : Nat) (s : K) (hs : s ≠ 0)
    (hW : varWithin c₁ = s * varWithin c₂) (hB : varBetween c₁ n = s * varBetween c₂ n)
    (hA : mean (c₁.map (fun c => autocov c lag)) = s * mean (c₂.map (fun c => autocov c lag))) :
    rhoHat c₁ n lag = rhoHat c₂ n lag := by
  unfold rhoHat varPooled
  rw [hW, hB, hA]
  have : (((n : K) - 1) * (s * varWithin c₂) + s * varBetween c₂ n) / (n : K)
      = s * ((((n : K) - 1) * varWithin c₂ + varBetween c₂ n) / (n : K)) := by ring
  rw [this, ← mul_sub, mul_div_mul_left _ _ hs]

theorem effSampleSize_congr (c₁ c₂ : List (List K))
    (hm : c₁.length = c₂.length) (hn : (c₁.headD []).length = (c₂.headD []).length)
    (hr : (c₁.headD []).length ≠ 0 →
      ∀ lag, rhoHat c₁ (c₁.headD []).length lag = rhoHat c₂ (c₁.headD []).length lag) :
    effSampleSize c₁ = effSampleSize c₂ := by
  unfold effSampleSize
  simp only
  rw [← hn, hm]
  by_cases h0 : (c₁.headD []).length = 0
  · rw [h0]; simp
  · rw [funext (hr h0)]

/-- common length of the head of a permuted list of equal-length chains -/
theorem headD_length_perm {c₁ c₂ : List (List K)} (hp : c₁.Perm c₂)
    (hlen : ∀ c ∈ c₁, c.length = (c₁.headD []).length) :
    (c₁.headD []).length = (c₂.headD []).length := by
  cases c₂ with
  | nil => rw [hp.eq_nil]
  | cons x xs =>
    have hx : x ∈ c₁ := hp.symm.subset (List.mem_cons_self)
    rw [List.headD_cons, hlen x hx]

theorem getElem?_flatten_blocks {α : Type} (L : Nat) :
    ∀ (blocks : List (List α)) (_ : ∀ b ∈ blocks, b.length = L) (c i : Nat) (_ : i < L),
      blocks.flatten[c * L + i]? = blocks[c]?.bind (fun b => b[i]?) := by
  intro blocks
  induction blocks with
  | nil => intro _ c i _; simp
  | cons b bs ih =>
    intro hL c i hi
    have hb : b.length = L := hL b List.mem_cons_self
    cases c with
    | zero =>
      simp only [Nat.zero_mul, Nat.zero_add, List.flatten_cons, List.getElem?_cons_zero,
        Option.bind_some]
      exact List.getElem?_append_left (by omega)
    | succ c =>
      rw [List.flatten_cons, List.getElem?_append_right (by rw [hb, Nat.succ_mul]; omega)]
      have : (c + 1) * L + i - b.length = c * L + i := by rw [hb, Nat.succ_mul]; omega
      rw [this, ih (fun b' hb' => hL b' (List.mem_cons_of_mem _ hb')) c i hi,
        List.getElem?_cons_succ]

theorem length_flatten_blocks {α : Type} (L : Nat) (blocks : List (List α))
    (hL : ∀ b ∈ blocks, b.length = L) : blocks.flatten.length = blocks.length * L := by
  induction blocks with
  | nil => simp
  | cons b bs ih =>
    rw [List.flatten_cons, List.length_append, hL b List.mem_cons_self,
      ih (fun b' hb' => hL b' (List.mem_cons_of_mem _ hb')), List.length_cons, Nat.succ_mul]
    omega

theorem headD_length_map (chains : List (List K)) (T : K → K) :
    ((chains.map (fun c => c.map T)).headD []).length = (chains.headD []).length := by
  cases chains with
  | nil => rfl
  | cons c cs => simp only [List.map_cons, List.headD_cons, List.length_map]

theorem split_map (T : K → K) (h : Nat) (chains : List (List K)) :
    (chains.map (fun c => c.map T)).flatMap (fun c => [c.take h, (c.drop h).take h]) =
      (chains.flatMap (fun c => [c.take h, (c.drop h).take h])).map (fun c => c.map T) := by
  induction chains with
  | nil => rfl
  | cons c cs ih =>
    simp only [List.map_cons, List.flatMap_cons, List.map_append, ih, List.map_take,
      List.map_drop, List.map_nil]

theorem rhat_expr_scale (h W V s : K) (hs : s ≠ 0) :
    ((h - 1) * (s * W) + h * (s * V)) / h / (s * W) = ((h - 1) * W + h * V) / h / W := by
  have : ((h - 1) * (s * W) + h * (s * V)) / h = s * (((h - 1) * W + h * V) / h) := by ring
  rw [this, mul_div_mul_left _ _ hs]

theorem varWithin_map_affine (a b : K) (S : List (List K)) :
    varWithin (S.map (fun c => c.map (fun x => a * x + b))) = a ^ 2 * varWithin S := by
  unfold varWithin
  rw [List.map_map]
  have : (var1 ∘ fun (c : List K) => c.map (fun x => a * x + b)) = fun c => a ^ 2 * var1 c :=
    funext (fun c => var1_map_affine a b c)
  rw [this, mean_map_mul_left]

theorem var1_means_map_affine (a b : K) (S : List (List K)) (hne : ∀ c ∈ S, c ≠ []) :
    var1 ((S.map (fun c => c.map (fun x => a * x + b))).map mean) = a ^ 2 * var1 (S.map mean) := by
  have : (S.map (fun c => c.map (fun x => a * x + b))).map mean
      = (S.map mean).map (fun x => a * x + b) := by
    rw [List.map_map, List.map_map]
    apply List.map_congr_left
    intro c hc
    exact mean_map_affine a b c (hne c hc)
  rw [this, var1_map_affine]

/-! ### main theorems -/

theorem columns_in_parameter_order' {α : Type} (names : List Nat) (outputs : List (Nat × α))
    (hall : ∀ n ∈ names, ∃ p ∈ outputs, p.1 = n) :
    (sampleColumns names outputs).map (·.1) = names ∧
    ∀ q ∈ sampleColumns names outputs, (outputs.find? (fun p => p.1 == q.1)).map (·.2) = some q.2 := by
  refine ⟨?_, ?_⟩
  · induction names with
    | nil => simp [sampleColumns]
    | cons n ns ih =>
      have ih' := ih (fun m hm => hall m (List.mem_cons_of_mem _ hm))
      cases hfind : outputs.find? (fun p => p.1 == n) with
      | none =>
        exfalso
        rw [List.find?_eq_none] at hfind
        obtain ⟨p, hp, hpn⟩ := hall n (by simp)
        exact hfind p hp (by simp [hpn])
      | some p' =>
        unfold sampleColumns at ih' ⊢
        rw [List.filterMap_cons, hfind]
        simp only [Option.map_some, List.map_cons, ih']
  · intro q hq
    unfold sampleColumns at hq
    rw [List.mem_filterMap] at hq
    obtain ⟨n, _, hn⟩ := hq
    cases hfind : outputs.find? (fun p => p.1 == n) with
    | none => rw [hfind] at hn; simp at hn
    | some p' =>
      rw [hfind] at hn
      simp only [Option.map_some, Option.some.injEq] at hn
      subst hn
      simp only [hfind, Option.map_some]

theorem means_weighted_average' (v w : List K) :
    weightedMean v (some w) = ((v.zip w).map (fun p => p.1 * p.2)).sum / w.sum ∧
    weightedMean v none = v.sum / (v.length : K) := by
  exact ⟨rfl, rfl⟩

theorem means_equal_weights' (v : List K) (c : K) (hc : c ≠ 0) (hv : v ≠ []) :
    weightedMean v (some (List.replicate v.length c)) = weightedMean v none := by
  have hn : ((v.length : Nat) : K) ≠ 0 := length_cast_ne_zero hv
  unfold weightedMean mean
  simp only
  rw [sum_zip_replicate, sum_replicate']
  field_simp

set_option linter.unusedVariables false in
theorem bolfi_index' {α : Type} (chains : List (List (List α))) (N w : Nat) (hw : w ≤ N)
    (hlen : ∀ c ∈ chains, c.length = N) (c i : Nat) (hc : c < chains.length) (hi : i < N - w) :
    (bolfiConcat chains w)[c * (N - w) + i]? = (chains[c]?).bind (fun ch => ch[w + i]?) ∧
    (bolfiConcat chains w).length = chains.length * (N - w) := by
  have hL : ∀ b ∈ chains.map (fun c => c.drop w), b.length = N - w := by
    intro b hb
    rw [List.mem_map] at hb
    obtain ⟨ch, hch, rfl⟩ := hb
    rw [List.length_drop, hlen ch hch]
  unfold bolfiConcat
  refine ⟨?_, ?_⟩
  · rw [getElem?_flatten_blocks (N - w) _ hL c i hi, List.getElem?_map]
    cases chains[c]? with
    | none => rfl
    | some ch => simp only [Option.map_some, Option.bind_some, List.getElem?_drop]
  · rw [length_flatten_blocks (N - w) _ hL, List.length_map]

theorem ess_affine_invariant' (chains : List (List K)) (a b : K) (ha : a ≠ 0)
    (hlen : ∀ c ∈ chains, c.length = (chains.headD []).length) :
    effSampleSize (chains.map (fun c => c.map (fun x => a * x + b))) = effSampleSize chains := by
  have ha2 : a ^ 2 ≠ 0 := pow_ne_zero 2 ha
  have hhead := headD_length_map chains (fun x => a * x + b)
  apply effSampleSize_congr _ _ (List.length_map _) hhead
  intro h0 lag
  rw [hhead] at h0 ⊢
  have hne : ∀ c ∈ chains, c ≠ [] := by
    intro c hc hnil
    apply h0
    rw [← hlen c hc, hnil]
    rfl
  apply rhoHat_scale _ _ _ _ (a ^ 2) ha2
  · exact varWithin_map_affine a b chains
  · unfold varBetween
    rw [List.length_map]
    split
    · simp
    · rw [var1_means_map_affine a b chains hne]; ring
  · rw [List.map_map]
    have : ((fun c => autocov c lag) ∘ fun (c : List K) => c.map (fun x => a * x + b))
        = fun c => a ^ 2 * autocov c lag :=
      funext (fun c => autocov_map_affine a b c lag)
    rw [this, mean_map_mul_left]

theorem ess_chain_perm_invariant' (c₁ c₂ : List (List K)) (hp : c₁.Perm c₂)
    (hlen : ∀ c ∈ c₁, c.length = (c₁.headD []).length) :
    effSampleSize c₁ = effSampleSize c₂ := by
  have hn := headD_length_perm hp hlen
  apply effSampleSize_congr _ _ hp.length_eq hn
  intro _ lag
  apply rhoHat_congr
  · unfold varWithin; exact mean_perm (hp.map _)
  · unfold varBetween; rw [hp.length_eq, var1_perm (hp.map _)]
  · exact mean_perm (hp.map _)

theorem rhat_affine_invariant' (chains : List (List K)) (a b : K) (ha : a ≠ 0)
    (hlen : ∀ c ∈ chains, c.length = (chains.headD []).length) :
    rhatSq (chains.map (fun c => c.map (fun x => a * x + b))) = rhatSq chains := by
  have ha2 : a ^ 2 ≠ 0 := pow_ne_zero 2 ha
  have hhead := headD_length_map chains (fun x => a * x + b)
  unfold rhatSq splitChains
  simp only
  rw [hhead, split_map]
  by_cases h0 : (chains.headD []).length / 2 = 0
  · rw [h0]; simp
  · have hne : ∀ x ∈ chains.flatMap (fun c => [c.take ((chains.headD []).length / 2),
        (c.drop ((chains.headD []).length / 2)).take ((chains.headD []).length / 2)]),
        x ≠ [] := by
      intro x hx hnil
      rw [List.mem_flatMap] at hx
      obtain ⟨c, hc, hx⟩ := hx
      have hl := hlen c hc
      have : x.length = (chains.headD []).length / 2 := by
        simp only [List.mem_cons, List.not_mem_nil, or_false] at hx
        rcases hx with rfl | rfl
        · rw [List.length_take]; omega
        · rw [List.length_take, List.length_drop]; omega
      rw [hnil] at this
      exact h0 this.symm
    rw [varWithin_map_affine, var1_means_map_affine a b _ hne]
    exact rhat_expr_scale _ _ _ _ ha2

theorem rhat_chain_perm_invariant' (c₁ c₂ : List (List K)) (hp : c₁.Perm c₂)
    (hlen : ∀ c ∈ c₁, c.length = (c₁.headD []).length) :
    rhatSq c₁ = rhatSq c₂ := by
  have hn := headD_length_perm hp hlen
  unfold rhatSq splitChains
  simp only
  rw [← hn]
  have hs := List.Perm.flatMap_right (fun (c : List K) => [c.take ((c₁.headD []).length / 2),
    (c.drop ((c₁.headD []).length / 2)).take ((c₁.headD []).length / 2)]) hp
  unfold varWithin
  rw [mean_perm (hs.map var1), var1_perm (hs.map mean)]

theorem rhat_textbook' (chains : List (List K)) :
    let s := splitChains chains
    let n : K := (((chains.headD []).length / 2 : Nat) : K)
    let W := mean (s.map var1)
    let B := n * var1 (s.map mean)
    rhatSq chains = (((n - 1) * W + B) / n) / W := by
  intro s n W B
  rfl

theorem ess_textbook' (chains : List (List K)) :
    let n := (chains.headD []).length
    let rho := fun t => 1 - (varWithin chains - mean (chains.map (fun c => autocov c t))) / varPooled chains n
    effSampleSize chains =
      ((chains.length : K) * (n : K)) /
        (1 + 2 * (((List.range' 1 (n - 1)).map rho).takeWhile (fun t => decide ((0 : K) ≤ t))).sum) := by
  intro n rho
  unfold effSampleSize
  simp only [two_mul, one_add_one_eq_two]
  rfl

end ElfiVerif.Results
