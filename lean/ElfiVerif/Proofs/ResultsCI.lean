import ElfiVerif.Proofs.Results
import ElfiVerif.Proofs.Stats

/-! The 95 % interval of a sample object (`Sample.sample_means_and_95CIs`, elfi/methods/results.py: the pair of
`weighted_sample_quantile(samples, 0.025 / 0.975, weights)`) through the quantile theorems of C13. -/
namespace ElfiVerif.Results
open ElfiVerif.Stats

variable {K : Type} [Field K] [LinearOrder K] [IsStrictOrderedRing K]

/-- `sample_means_and_95CIs[p][1:]` -/
def ci95 (sort : List (K × K) → List (K × K)) (v : List K) (w : Option (List K)) : Option K × Option K :=
  (weightedQuantile sort v w (25 / 1000), weightedQuantile sort v w (975 / 1000))

theorem ci95_spec' (sort : List (K × K) → List (K × K)) (hs : SortOK sort) (v w : List K)
    (hlen : v.length = w.length) (hw : ∀ a ∈ w, 0 ≤ a) (hsum : 0 < w.sum) :
    ∃ lo hi, ci95 sort v (some w) = (some lo, some hi) ∧ lo ∈ v ∧ hi ∈ v ∧ lo ≤ hi ∧
      (25 / 1000 ≤ wLE v w lo / w.sum ∧ wLT v w lo / w.sum ≤ 25 / 1000) ∧
      (975 / 1000 ≤ wLE v w hi / w.sum ∧ wLT v w hi / w.sum ≤ 975 / 1000) := by
  have h1 : (0 : K) ≤ 25 / 1000 := by norm_num
  have h2 : (25 : K) / 1000 ≤ 975 / 1000 := by norm_num
  have h3 : (975 : K) / 1000 ≤ 1 := by norm_num
  obtain ⟨lo, hlo, hlom, hlo1, hlo2⟩ := quantile_spec' sort hs v w (25 / 1000) hlen hw hsum h1 (le_trans h2 h3)
  obtain ⟨hi, hhi, hhim, hhi1, hhi2⟩ := quantile_spec' sort hs v w (975 / 1000) hlen hw hsum (le_trans h1 h2) h3
  refine ⟨lo, hi, ?_, hlom, hhim, ?_, ⟨hlo1, hlo2⟩, ⟨hhi1, hhi2⟩⟩
  · simp [ci95, hlo, hhi]
  · exact quantile_mono' sort hs v w _ _ hlen hw hsum h1 h2 h3 lo hi hlo hhi

end ElfiVerif.Results
