import ElfiVerif.Model.Romc
import Mathlib.Algebra.Order.Field.Basic
import Mathlib.Data.Matrix.Mul
import Mathlib.Data.List.Basic
import Mathlib.Algebra.BigOperators.Group.List.Basic
import Mathlib.Tactic.Ring
import Mathlib.Tactic.FieldSimp
import Mathlib.Tactic.Linarith
import Mathlib.Tactic.Positivity

/-! Proofs for C19 (statements are repeated in Props/C19.lean). -/
namespace ElfiVerif.Romc

variable {K : Type} [Field K] [LinearOrder K] [IsStrictOrderedRing K]

theorem sample_contained' (b : Box K) (θ : List K)
    (hinv : vadd (matVec b.rotationInv (vadd (matVec b.rotation θ) b.center))
              (matVec b.rotationInv (vneg b.center)) = θ)
    (hθ : withinLimits b.limits θ = true) :
    b.contains (b.sampleMap θ) = true := by
  unfold Box.contains Box.local Box.sampleMap
  rw [hinv]
  exact hθ

theorem contained_is_image' (b : Box K) (p : List K) (h : b.contains p = true)
    (hinv : vadd (matVec b.rotation (b.local p)) b.center = p) :
    ∃ θ, withinLimits b.limits θ = true ∧ b.sampleMap θ = p :=
  ⟨b.local p, h, hinv⟩

theorem inverse_law_of_matrix' {n : Nat} (R Rinv : Matrix (Fin n) (Fin n) K) (h : Rinv * R = 1)
    (θ c : Fin n → K) :
    Rinv.mulVec (R.mulVec θ + c) + Rinv.mulVec (-c) = θ := by
  rw [Matrix.mulVec_add, Matrix.mulVec_mulVec, h, Matrix.one_mulVec, Matrix.mulVec_neg,
    add_neg_cancel_right]

theorem secure_limits_pos' (rel eps : K) (hrel : 0 ≤ rel) (heps : 0 < eps) (limits : List (K × K))
    (hl : ∀ l ∈ limits, l.1 ≤ 0 ∧ 0 ≤ l.2) :
    ∀ l ∈ secureLimits rel eps (eps / 2) limits, l.1 < l.2 := by
  intro l hl'
  unfold secureLimits at hl'
  rw [List.mem_map] at hl'
  obtain ⟨l0, hl0, rfl⟩ := hl'
  obtain ⟨h1, h2⟩ := hl l0 hl0
  have hhalf : 0 < eps / 2 := half_pos heps
  by_cases hc : isClose rel eps l0.1 l0.2 = true
  · rw [if_pos hc]
    show l0.1 - eps / 2 < l0.2 + eps / 2
    linarith
  · rw [if_neg hc]
    unfold isClose at hc
    rw [decide_eq_true_eq, not_le] at hc
    have h3 : eps < absK (l0.1 - l0.2) := lt_of_le_of_lt (le_max_right _ _) hc
    unfold absK at h3
    split_ifs at h3 with h4
    · linarith
    · linarith

theorem foldl_mul_pos (ws : List K) : ∀ acc : K, 0 < acc → (∀ w ∈ ws, 0 < w) →
    0 < ws.foldl (· * ·) acc := by
  induction ws with
  | nil => intro acc h _; simpa using h
  | cons w ws ih =>
    intro acc h hw
    rw [List.foldl_cons]
    exact ih _ (mul_pos h (hw w (List.mem_cons_self ..)))
      (fun x hx => hw x (List.mem_cons_of_mem _ hx))

theorem volume_pos' (b : Box K) (h : ∀ l ∈ b.limits, l.1 < l.2) : 0 < b.volume := by
  unfold Box.volume
  apply foldl_mul_pos _ _ one_pos
  intro w hw
  rw [List.mem_map] at hw
  obtain ⟨l, hl, rfl⟩ := hw
  exact sub_pos.mpr (h l hl)

theorem secure_limits_id' (rel eps half : K) (limits : List (K × K))
    (h : ∀ l ∈ limits, isClose rel eps l.1 l.2 = false) :
    secureLimits rel eps half limits = limits := by
  unfold secureLimits
  conv_rhs => rw [← List.map_id limits]
  apply List.map_congr_left
  intro l hl
  rw [h l hl]
  rfl

theorem pdf_values' (b : Box K) (p : List K) :
    (b.contains p = true → b.pdf p = 1 / b.volume) ∧ (b.contains p = false → b.pdf p = 0) := by
  unfold Box.pdf
  constructor
  · intro h; rw [if_pos h]
  · intro h; rw [h]; simp

/-! line search -/

theorem advance_back (good : K → Bool) (eta : K) (repLim : Nat) (heta : 0 < eta) :
    ∀ (fuel : Nat) (off : K) (rep : Nat), good (off - eta) = true →
      good ((advance good eta repLim fuel off rep).1 - eta) = true ∧
        off - eta ≤ (advance good eta repLim fuel off rep).1 - eta := by
  intro fuel
  induction fuel with
  | zero => intro off rep h; exact ⟨h, le_refl _⟩
  | succ fuel ih =>
    intro off rep h
    unfold advance
    by_cases hc : (good off && decide (rep ≤ repLim)) = true
    · rw [if_pos hc]
      have hg : good off = true := by
        rw [Bool.and_eq_true] at hc; exact hc.1
      have hg' : good (off + eta - eta) = true := by rw [add_sub_cancel_right]; exact hg
      obtain ⟨h1, h2⟩ := ih (off + eta) (rep + 1) hg'
      refine ⟨h1, le_trans ?_ h2⟩
      linarith
    · rw [if_neg hc]
      exact ⟨h, le_refl _⟩

theorem rounds_eta_pos (good : K → Bool) (repLim : Nat) :
    ∀ (k : Nat) (off eta : K), 0 < eta → 0 < (rounds good repLim k off eta).2 := by
  intro k
  induction k with
  | zero => intro off eta h; exact h
  | succ k ih =>
    intro off eta h
    unfold rounds
    rcases hadv : advance good eta repLim (repLim + 2) off 0 with ⟨off1, rep⟩
    dsimp only
    split_ifs
    · exact h
    · exact ih _ _ (half_pos h)

theorem rounds_good (good : K → Bool) (repLim : Nat) :
    ∀ (k : Nat) (off eta : K), 0 < eta → 0 ≤ off → good off = true →
      0 ≤ (rounds good repLim k off eta).1 ∧ good (rounds good repLim k off eta).1 = true := by
  intro k
  induction k with
  | zero => intro off eta _ h0 hg; exact ⟨h0, hg⟩
  | succ k ih =>
    intro off eta heta h0 hg
    have hstep : advance good eta repLim (repLim + 2) off 0 =
        advance good eta repLim (repLim + 1) (off + eta) 1 := by
      rw [advance]
      simp [hg]
    have hg' : good (off + eta - eta) = true := by rw [add_sub_cancel_right]; exact hg
    obtain ⟨h1, h2⟩ := advance_back good eta repLim heta (repLim + 1) (off + eta) 1 hg'
    rw [← hstep] at h1 h2
    rw [add_sub_cancel_right] at h2
    unfold rounds
    rcases hadv : advance good eta repLim (repLim + 2) off 0 with ⟨off1, rep⟩
    rw [hadv] at h1 h2
    dsimp only at h1 h2 ⊢
    split_ifs
    · exact ⟨le_trans h0 h2, h1⟩
    · exact ih _ _ (half_pos heta) (le_trans h0 h2) h1

theorem linesearch_positive' (good : K → Bool) (k : Nat) (eta : K) (repLim : Nat) (heta : 0 < eta) :
    0 < lineSearch good k eta repLim := by
  unfold lineSearch
  have h := rounds_eta_pos good repLim k 0 eta heta
  rcases hr : rounds good repLim k 0 eta with ⟨off, eta'⟩
  rw [hr] at h
  dsimp only at h ⊢
  split_ifs with hc
  · exact h
  · exact not_le.mp hc

theorem linesearch_result_good' (good : K → Bool) (k : Nat) (eta : K) (repLim : Nat) (heta : 0 < eta)
    (h0 : good 0 = true) :
    let r := rounds good repLim k 0 eta
    0 ≤ r.1 ∧ good r.1 = true ∧ 0 < r.2 ∧
    lineSearch good k eta repLim = (if r.1 ≤ 0 then r.2 else r.1) := by
  intro r
  obtain ⟨h1, h2⟩ := rounds_good good repLim k 0 eta heta (le_refl _) h0
  exact ⟨h1, h2, rounds_eta_pos good repLim k 0 eta heta, rfl⟩

theorem sum_indicators_count' (dists : List K) (eps : K) :
    sumIndicators dists eps = (dists.filter (fun d => decide (d ≤ eps))).length := by
  unfold sumIndicators
  exact List.countP_eq_length_filter

theorem sum_region_indicators_count' (items : List (Bool × K)) (eps : K) :
    sumRegionIndicators items eps =
      (items.filter (fun it => it.1 && decide (it.2 ≤ eps))).length := by
  unfold sumRegionIndicators
  exact List.countP_eq_length_filter

theorem weight_formula' (dist eps prior q : K) :
    (0 < q → dist < eps → weight dist eps prior q = prior / q) ∧
    (0 < q → ¬ dist < eps → weight dist eps prior q = 0) ∧
    (¬ 0 < q → weight dist eps prior q = 0) := by
  unfold weight
  refine ⟨?_, ?_, ?_⟩
  · intro h1 h2; rw [if_pos h1, if_pos h2, one_mul]
  · intro h1 h2; rw [if_pos h1, if_neg h2, zero_mul, zero_div]
  · intro h1; rw [if_neg h1]

end ElfiVerif.Romc
