import ElfiVerif.Model.Smc
import Mathlib.Data.List.Basic
import Mathlib.Algebra.BigOperators.Group.List.Basic
import Mathlib.Tactic.Linarith
import Mathlib.Algebra.Order.Field.Basic
import Mathlib.Tactic.FieldSimp
import Mathlib.Tactic.Ring
import Mathlib.Tactic.Positivity

/-! Proofs for C07 (statements are repeated in Props/C07.lean). -/
namespace ElfiVerif.Smc

/-- every call has at least one round (a threshold / quantile list is non-empty) -/
def CallsOK (calls : List (Bool × List (Nat × Nat))) : Prop := ∀ c ∈ calls, c.2 ≠ []

/-- admissible threshold source for the population with index `r` -/
def ThrGood (r : Nat) : ThrSrc → Prop
  | .user _ => True
  | .quantileOf p _ => 0 < r ∧ p = r - 1
  | .budget _ => r = 0

/-- bookkeeping invariant of the populations / batch counter relative to the list `L` of all rounds
processed so far -/
structure Inv (pops : List Pop) (nB : Nat) (L : List (Nat × Nat)) : Prop where
  rounds : pops.map (fun p => (p.sample, p.nBatches)) = L
  good : ∀ r (hr : r < pops.length),
    (pops[r]).ref = (if r = 0 then none else some (r - 1)) ∧ ThrGood r (pops[r]).thr
  nsim : nB = (L.map (·.2)).sum

theorem thrGood_thrOf (st : St) (q : Bool) (i : Nat) : ThrGood st.round (thrOf st q i) := by
  unfold thrOf
  cases q with
  | false => simp [ThrGood]
  | true =>
    by_cases h0 : st.round = 0
    · simp [h0, ThrGood]
    · rw [if_pos rfl, if_neg h0]
      exact ⟨Nat.pos_of_ne_zero h0, rfl⟩

theorem Inv.step {st : St} {L : List (Nat × Nat)} (hinv : Inv st.pops st.nBatches L)
    (hround : st.round = st.pops.length) (q : Bool) (i s nb : Nat) :
    Inv (st.pops ++ [extract st s nb (thrOf st q i)]) (st.nBatches + nb) (L ++ [(s, nb)]) := by
  refine ⟨?_, ?_, ?_⟩
  · rw [List.map_append, hinv.rounds]
    simp [extract]
  · intro r hr
    by_cases hlt : r < st.pops.length
    · rw [List.getElem_append_left hlt]
      exact hinv.good r hlt
    · have hlen : r = st.pops.length := by
        simp only [List.length_append, List.length_singleton] at hr
        omega
      subst hlen
      rw [List.getElem_append_right (Nat.le_refl _)]
      simp only [Nat.sub_self, List.getElem_cons_zero]
      refine ⟨?_, ?_⟩
      · simp only [extract, List.isEmpty_iff]
        by_cases he : st.pops = []
        · simp [he]
        · have : st.pops.length ≠ 0 := by
            intro h0; exact he (List.eq_nil_of_length_eq_zero h0)
          simp [he, this]
      · have := thrGood_thrOf st q i
        rw [hround] at this
        simpa [extract] using this
  · rw [List.map_append, List.sum_append, ← hinv.nsim]
    simp

theorem Inv.go (q : Bool) (rounds : List (Nat × Nat)) :
    ∀ (st : St) (i : Nat) (L : List (Nat × Nat)), Inv st.pops st.nBatches L →
      st.round = st.pops.length →
      Inv (call.go q st i rounds).pops (call.go q st i rounds).nBatches (L ++ rounds) := by
  induction rounds with
  | nil =>
    intro st i L hinv _
    rw [call.go.eq_1, List.append_nil]
    exact hinv
  | cons x rest ih =>
    intro st i L hinv hround
    obtain ⟨s, nb⟩ := x
    cases rest with
    | nil =>
      rw [call.go.eq_2]
      exact hinv.step hround q i s nb
    | cons y rest' =>
      rw [call.go.eq_3 q st i s nb (y :: rest') (by simp)]
      have hstep := hinv.step hround q i s nb
      have := ih { pops := st.pops ++ [extract st s nb (thrOf st q i)], round := st.round + 1,
                   nBatches := st.nBatches + nb } (i + 1) (L ++ [(s, nb)]) hstep
        (by simp [hround])
      simpa [List.append_assoc] using this

theorem Inv.call {st : St} {L : List (Nat × Nat)} (hinv : Inv st.pops st.nBatches L) (q : Bool)
    (rounds : List (Nat × Nat)) :
    Inv (call st q rounds).pops (call st q rounds).nBatches (L ++ rounds) := by
  unfold ElfiVerif.Smc.call
  exact Inv.go q rounds { st with round := st.pops.length } 0 L hinv rfl

theorem Inv.foldl (calls : List (Bool × List (Nat × Nat))) :
    ∀ (st : St) (L : List (Nat × Nat)), Inv st.pops st.nBatches L →
      Inv (calls.foldl (fun st c => ElfiVerif.Smc.call st c.1 c.2) st).pops
        (calls.foldl (fun st c => ElfiVerif.Smc.call st c.1 c.2) st).nBatches
        (L ++ (calls.map (·.2)).flatten) := by
  induction calls with
  | nil => intro st L hinv; simpa using hinv
  | cons c cs ih =>
    intro st L hinv
    have := ih (ElfiVerif.Smc.call st c.1 c.2) (L ++ c.2) (hinv.call c.1 c.2)
    simpa [List.append_assoc] using this

theorem Inv.history (calls : List (Bool × List (Nat × Nat))) :
    Inv (history calls).pops (history calls).nBatches ((calls.map (·.2)).flatten) := by
  have h0 : Inv ({} : St).pops ({} : St).nBatches [] :=
    ⟨rfl, fun r hr => absurd hr (Nat.not_lt_zero r), rfl⟩
  have := Inv.foldl calls {} [] h0
  simpa [ElfiVerif.Smc.history] using this

theorem pops_are_rounds' (calls : List (Bool × List (Nat × Nat))) (h : CallsOK calls) :
    (history calls).pops.map (fun p => (p.sample, p.nBatches)) = (calls.map (·.2)).flatten := by
  have _ := h  -- `CallsOK` is not needed
  exact (Inv.history calls).rounds

theorem refs_are_previous' (calls : List (Bool × List (Nat × Nat))) (h : CallsOK calls) (r : Nat)
    (hr : r < (history calls).pops.length) :
    ((history calls).pops[r]).ref = if r = 0 then none else some (r - 1) := by
  have _ := h  -- `CallsOK` is not needed
  exact ((Inv.history calls).good r hr).1

theorem thresholds_from_previous' (calls : List (Bool × List (Nat × Nat))) (h : CallsOK calls) (r : Nat)
    (hr : r < (history calls).pops.length) :
    match ((history calls).pops[r]).thr with
    | .user _ => True
    | .quantileOf p _ => 0 < r ∧ p = r - 1
    | .budget _ => r = 0 := by
  have _ := h  -- `CallsOK` is not needed
  have := ((Inv.history calls).good r hr).2
  cases hthr : ((history calls).pops[r]).thr with
  | user i => trivial
  | quantileOf p i => rw [hthr] at this; exact this
  | budget i => rw [hthr] at this; exact this

theorem nsim_total' (calls : List (Bool × List (Nat × Nat))) (h : CallsOK calls) :
    (history calls).nBatches = (((calls.map (·.2)).flatten).map (·.2)).sum := by
  have _ := h  -- `CallsOK` is not needed
  exact (Inv.history calls).nsim

/-! ### importance weights -/
section weights
variable {F Θ : Type} [Field F] [LinearOrder F] [IsStrictOrderedRing F]

theorem sumF_cons (a : F) (l : List F) : sumF (a :: l) = a + sumF l := rfl

theorem sumF_nil : sumF ([] : List F) = 0 := rfl

theorem sumF_map_mul (c : F) (l : List F) : sumF (l.map (c * ·)) = c * sumF l := by
  induction l with
  | nil => simp [sumF_nil]
  | cons a l ih => simp only [List.map_cons, sumF_cons, ih]; ring

theorem mix_const (S : F) : ∀ (w : List F) (means : List Θ), w.length = means.length →
    sumF (List.zipWith (fun wj (_ : Θ) => wj / S * (1 : F)) w means) = sumF w / S := by
  intro w
  induction w with
  | nil => intro means _; simp [sumF_nil]
  | cons a w ih =>
    intro means h
    cases means with
    | nil => simp at h
    | cons m ms =>
      have h' : w.length = ms.length := by simpa using h
      simp only [List.zipWith_cons_cons, sumF_cons, ih ms h']
      ring

theorem gm_density_normalised' (means : List Θ) (w : List F) (x : Θ) (hlen : w.length = means.length)
    (hsum : sumF w ≠ 0) : gmDensity (fun _ _ => (1 : F)) means w x = 1 := by
  unfold gmDensity
  rw [mix_const (sumF w) w means hlen]
  exact div_self hsum

theorem mix_scale (k : Θ → F) (S c : F) (hc : c ≠ 0) : ∀ (w : List F) (means : List Θ),
    sumF (List.zipWith (fun wj m => wj / (c * S) * k m) (w.map (c * ·)) means) =
    sumF (List.zipWith (fun wj m => wj / S * k m) w means) := by
  intro w
  induction w with
  | nil => intro means; simp
  | cons a w ih =>
    intro means
    cases means with
    | nil => simp
    | cons m ms =>
      simp only [List.map_cons, List.zipWith_cons_cons, sumF_cons, ih ms]
      rw [mul_div_mul_left a S hc]

theorem smc_weight_scale_invariant' (prior : Θ → F) (kernel : Θ → Θ → F) (means : List Θ) (w : List F)
    (x : Θ) (c : F) (hc : c ≠ 0) :
    smcWeight prior kernel means (w.map (c * ·)) x = smcWeight prior kernel means w x := by
  unfold smcWeight gmDensity
  rw [sumF_map_mul, mix_scale (kernel x) (sumF w) c hc w means]

theorem mix_pos (k : Θ → F) (S : F) (hS : 0 < S) : ∀ (w : List F) (means : List Θ),
    w.length = means.length → (∀ v ∈ w, 0 ≤ v) → (∀ m ∈ means, 0 < k m) →
    0 ≤ sumF (List.zipWith (fun wj m => wj / S * k m) w means) ∧
    (0 < sumF w → 0 < sumF (List.zipWith (fun wj m => wj / S * k m) w means)) := by
  intro w
  induction w with
  | nil => intro means _ _ _; simp [sumF_nil]
  | cons a w ih =>
    intro means h hw hk
    cases means with
    | nil => simp at h
    | cons m ms =>
      have h' : w.length = ms.length := by simpa using h
      have ha : 0 ≤ a := hw a (by simp)
      have hkm : 0 < k m := hk m (by simp)
      obtain ⟨h0, hpos⟩ := ih ms h' (fun v hv => hw v (by simp [hv])) (fun q hq => hk q (by simp [hq]))
      simp only [List.zipWith_cons_cons, sumF_cons]
      have hterm : 0 ≤ a / S * k m := mul_nonneg (div_nonneg ha hS.le) hkm.le
      refine ⟨add_nonneg hterm h0, fun hsum => ?_⟩
      rcases lt_or_eq_of_le ha with hlt | heq
      · have : 0 < a / S * k m := mul_pos (div_pos hlt hS) hkm
        linarith
      · have : 0 < sumF w := by rw [← heq] at hsum; simpa using hsum
        have := hpos this
        linarith

theorem smc_weight_pos' (prior : Θ → F) (kernel : Θ → Θ → F) (means : List Θ) (w : List F) (x : Θ)
    (hlen : w.length = means.length) (hw : ∀ v ∈ w, 0 ≤ v) (hsum : 0 < sumF w)
    (hk : ∀ m ∈ means, 0 < kernel x m) (hp : 0 < prior x) :
    0 < smcWeight prior kernel means w x := by
  unfold smcWeight gmDensity
  exact div_pos hp ((mix_pos (kernel x) (sumF w) hsum w means hlen hw hk).2 hsum)

theorem smc_weight_zero_outside' (prior : Θ → F) (kernel : Θ → Θ → F) (means : List Θ) (w : List F)
    (x : Θ) (hp : prior x = 0) : smcWeight prior kernel means w x = 0 := by
  unfold smcWeight
  rw [hp, zero_div]

end weights

end ElfiVerif.Smc
