import ElfiVerif.Proofs.Rejection
import ElfiVerif.Proofs.Smc

/-! Every SMC round is a rejection run with the threshold in force (`SMC._rejection`, elfi/methods/inference/samplers.py
`SMC._init_new_round`): the population theorems of C07 obtained from the rejection theorems of C01. -/
namespace ElfiVerif.SmcRound
open ElfiVerif.Rejection

variable {κ : Type} [LinearOrder κ] [OrderTop κ]

/-- one finished round: configuration of the inner rejection sampler, the batches it was served, its fuel and final state -/
structure Round (κ : Type) where
  cfg : Cfg κ
  batch : Nat → List (Slot κ)
  fuel : Nat
  st : St κ

/-- a round run with a finite threshold `t` (the user's, or the quantile of the previous population) -/
def Round.OK (sort : List (Slot κ) → List (Slot κ)) (est : Nat → Nat → Nat → Nat → Nat) (r : Round κ) (t : κ) : Prop :=
  r.cfg.thr = some t ∧ t < ⊤ ∧ 0 < r.cfg.n ∧ 0 < r.cfg.b ∧ 0 < initObj r.cfg ∧
  run sort est r.cfg r.batch r.fuel (initSt ⊤ r.cfg) = some r.st ∧ BatchesOK r.batch r.cfg.b r.st.nBatches

theorem round_population' (sort : List (Slot κ) → List (Slot κ)) (hs : SortOK sort)
    (est : Nat → Nat → Nat → Nat → Nat)
    (hest : ∀ n b nAcc nb, 0 < b → 0 < nAcc → nAcc < n → nb < est n nAcc (nb * b) b)
    (r : Round κ) (t : κ) (h : r.OK sort est t) :
    let res := extract r.cfg r.st
    res.rows.length = r.cfg.n ∧
    (∀ s ∈ res.rows, s.key ≤ t ∧ s.origin.isSome = true ∧ s ∈ consumed r.batch r.st.nBatches) ∧
    (res.rows.map (·.origin)).Nodup ∧
    (∀ k, res.threshold = some k → k ≤ t) ∧
    res.nSim = r.cfg.b * r.st.nBatches := by
  obtain ⟨hthr, ht, hn, hb, hobj, hrun, hbat⟩ := h
  have henough := threshold_finishes_full' sort hs est r.cfg r.batch r.fuel r.st t hthr ht hn hb hobj
    (fun nAcc nb h0 h1 => hest r.cfg.n r.cfg.b nAcc nb hb h0 h1) hrun hbat
  obtain ⟨⟨hlen, hmem, hnd, _, _, hthrs⟩, hsim, _⟩ :=
    extract_spec' sort hs est r.cfg r.batch r.fuel r.st hn hb hrun hbat henough
  have hkey : ∀ s ∈ (extract r.cfg r.st).rows, s.key ≤ t := by
    intro s hsm
    have := (hmem s hsm).2.2
    rw [hthr] at this
    simpa [accepted] using this
  refine ⟨hlen, fun s hsm => ⟨hkey s hsm, (hmem s hsm).1, (hmem s hsm).2.1⟩, hnd, ?_, hsim⟩
  intro k hk
  rw [hthrs] at hk
  rcases hl : (extract r.cfg r.st).rows.getLast? with _ | s
  · rw [hl] at hk; cases hk
  · rw [hl] at hk
    simp only [Option.map_some, Option.some.injEq] at hk
    subst hk
    exact hkey s (List.mem_of_getLast? hl)

theorem populations_total' (sort : List (Slot κ) → List (Slot κ)) (hs : SortOK sort)
    (est : Nat → Nat → Nat → Nat → Nat)
    (hest : ∀ n b nAcc nb, 0 < b → 0 < nAcc → nAcc < n → nb < est n nAcc (nb * b) b)
    (rounds : List (Round κ × κ)) (h : ∀ rt ∈ rounds, rt.1.OK sort est rt.2) (b n : Nat)
    (hb : ∀ rt ∈ rounds, rt.1.cfg.b = b ∧ rt.1.cfg.n = n) :
    (∀ rt ∈ rounds, (extract rt.1.cfg rt.1.st).rows.length = n ∧
        ∀ s ∈ (extract rt.1.cfg rt.1.st).rows, s.key ≤ rt.2) ∧
    ((rounds.map (fun rt => (extract rt.1.cfg rt.1.st).nSim)).sum =
      b * (rounds.map (fun rt => rt.1.st.nBatches)).sum) := by
  refine ⟨?_, ?_⟩
  · intro rt hrt
    have hp := round_population' sort hs est hest rt.1 rt.2 (h rt hrt)
    exact ⟨hp.1.trans (hb rt hrt).2, fun s hsm => (hp.2.1 s hsm).1⟩
  · induction rounds with
    | nil => simp
    | cons rt rest ih =>
      have hp := round_population' sort hs est hest rt.1 rt.2 (h rt (List.mem_cons_self))
      have ih' := ih (fun x hx => h x (List.mem_cons_of_mem _ hx))
        (fun x hx => hb x (List.mem_cons_of_mem _ hx))
      simp only [List.map_cons, List.sum_cons, Nat.mul_add]
      rw [ih', hp.2.2.2.2, (hb rt (List.mem_cons_self)).1]

end ElfiVerif.SmcRound
