import ElfiVerif.Model.Stats
import Mathlib.Algebra.Order.Field.Basic
import Mathlib.Algebra.BigOperators.Group.List.Basic
import Mathlib.Tactic.Ring
import Mathlib.Tactic.FieldSimp
import Mathlib.Tactic.Linarith

/-! Specification vocabulary and proofs for C13 (statements are repeated in Props/C13.lean). -/
namespace ElfiVerif.Stats

set_option linter.unusedSectionVars false

variable {K : Type} [Field K] [LinearOrder K] [IsStrictOrderedRing K]

/-- `sort` returns a permutation of its input that is ascending in the value component -/
def SortOK (sort : List (K × K) → List (K × K)) : Prop :=
  ∀ l, (sort l).Perm l ∧ (sort l).Pairwise (fun a b => a.1 ≤ b.1)

/-- total (unnormalised) weight of the sample values `≤ v` -/
def wLE (x w : List K) (v : K) : K := (((x.zip w).filter (fun p => decide (p.1 ≤ v))).map (·.2)).sum
/-- total (unnormalised) weight of the sample values `< v` -/
def wLT (x w : List K) (v : K) : K := (((x.zip w).filter (fun p => decide (p.1 < v))).map (·.2)).sum

/-! ### generic list helpers -/

theorem sum_map_div_const (w : List K) (s : K) : (w.map (fun a => a / s)).sum = w.sum / s := by
  induction w with
  | nil => simp
  | cons a l ih => simp only [List.map_cons, List.sum_cons, ih, add_div]

theorem sum_map_const_mul {β : Type} (l : List β) (f : β → K) (c : K) :
    (l.map (fun b => c * f b)).sum = c * (l.map f).sum := by
  induction l with
  | nil => simp
  | cons a l ih => simp only [List.map_cons, List.sum_cons, ih, mul_add]

theorem sum_nonneg' (l : List K) (h : ∀ a ∈ l, 0 ≤ a) : 0 ≤ l.sum := by
  induction l with
  | nil => simp
  | cons a l ih =>
    rw [List.sum_cons]
    exact add_nonneg (h a (List.mem_cons_self ..)) (ih fun b hb => h b (List.mem_cons_of_mem _ hb))

/-! ### insertion sort -/

theorem insertByFst_perm (p : K × K) (l : List (K × K)) : (insertByFst p l).Perm (p :: l) := by
  induction l with
  | nil => simp [insertByFst]
  | cons q qs ih =>
    simp only [insertByFst]
    split
    · exact List.Perm.refl _
    · exact (List.Perm.cons q ih).trans (List.Perm.swap p q qs)

theorem insertByFst_sorted (p : K × K) (l : List (K × K))
    (h : l.Pairwise (fun a b => a.1 ≤ b.1)) :
    (insertByFst p l).Pairwise (fun a b => a.1 ≤ b.1) := by
  induction l with
  | nil => simp [insertByFst]
  | cons q qs ih =>
    simp only [insertByFst]
    rw [List.pairwise_cons] at h
    split
    · rename_i hpq
      refine List.Pairwise.cons ?_ (List.Pairwise.cons h.1 h.2)
      intro b hb
      rcases List.mem_cons.1 hb with rfl | hb
      · exact hpq
      · exact le_trans hpq (h.1 b hb)
    · rename_i hpq
      refine List.Pairwise.cons ?_ (ih h.2)
      intro b hb
      have hb' := (insertByFst_perm p qs).mem_iff.1 hb
      rcases List.mem_cons.1 hb' with rfl | hb'
      · exact le_of_lt (not_le.1 hpq)
      · exact h.1 b hb'

theorem sortByFst_ok' : SortOK (sortByFst (K := K)) := by
  intro l
  induction l with
  | nil => simp [sortByFst]
  | cons p l ih =>
    have e : sortByFst (p :: l) = insertByFst p (sortByFst l) := rfl
    rw [e]
    exact ⟨(insertByFst_perm p _).trans (List.Perm.cons p ih.1), insertByFst_sorted p _ ih.2⟩

/-! ### filtered weight sums -/

/-- sum of the weights of the pairs satisfying `P` -/
def fsum (P : K × K → Bool) (L : List (K × K)) : K := ((L.filter P).map (·.2)).sum

theorem wLE_eq (x w : List K) (v : K) : wLE x w v = fsum (fun p => decide (p.1 ≤ v)) (x.zip w) := rfl
theorem wLT_eq (x w : List K) (v : K) : wLT x w v = fsum (fun p => decide (p.1 < v)) (x.zip w) := rfl

theorem fsum_nil (P : K × K → Bool) : fsum P [] = 0 := by simp [fsum]

theorem fsum_cons (P : K × K → Bool) (p : K × K) (L : List (K × K)) :
    fsum P (p :: L) = (if P p then p.2 else 0) + fsum P L := by
  unfold fsum
  by_cases h : P p = true
  · simp [h]
  · simp [h]

theorem fsum_perm (P : K × K → Bool) {L L' : List (K × K)} (h : L.Perm L') : fsum P L = fsum P L' :=
  ((h.filter P).map _).sum_eq

theorem fsum_nonneg (P : K × K → Bool) (L : List (K × K)) (h : ∀ p ∈ L, 0 ≤ p.2) : 0 ≤ fsum P L := by
  induction L with
  | nil => simp [fsum_nil]
  | cons p L ih =>
    rw [fsum_cons]
    have h1 := h p (List.mem_cons_self ..)
    have h2 := ih fun b hb => h b (List.mem_cons_of_mem _ hb)
    split <;> linarith

theorem fsum_mono (P Q : K × K → Bool) (L : List (K × K)) (h : ∀ p ∈ L, 0 ≤ p.2)
    (hPQ : ∀ p ∈ L, P p = true → Q p = true) : fsum P L ≤ fsum Q L := by
  induction L with
  | nil => simp [fsum_nil]
  | cons p L ih =>
    rw [fsum_cons, fsum_cons]
    have h1 := h p (List.mem_cons_self ..)
    have h2 := ih (fun b hb => h b (List.mem_cons_of_mem _ hb))
      (fun b hb => hPQ b (List.mem_cons_of_mem _ hb))
    have h3 := hPQ p (List.mem_cons_self ..)
    by_cases hP : P p = true
    · rw [if_pos hP, if_pos (h3 hP)]; linarith
    · rw [if_neg hP]; split <;> linarith

theorem fsum_eq_zero (P : K × K → Bool) (L : List (K × K)) (h : ∀ p ∈ L, ¬ P p = true) :
    fsum P L = 0 := by
  induction L with
  | nil => simp [fsum_nil]
  | cons p L ih =>
    rw [fsum_cons, if_neg (h p (List.mem_cons_self ..)),
      ih fun b hb => h b (List.mem_cons_of_mem _ hb), add_zero]

theorem fsum_map_snd (P : K × K → Bool) (g : K → K) (L : List (K × K))
    (hP : ∀ p : K × K, P (p.1, g p.2) = P p) (c : K) (hg : ∀ a, g a = c * a) :
    fsum P (L.map (Prod.map id g)) = c * fsum P L := by
  induction L with
  | nil => simp [fsum_nil]
  | cons p L ih =>
    rw [List.map_cons, fsum_cons, fsum_cons, ih]
    have : P (Prod.map id g p) = P p := hP p
    rw [this]
    split
    · simp [Prod.map, hg, mul_add]
    · simp

/-! ### the search for the quantile index -/

/-- `findIdx` on the running sums, computed directly -/
def findCum (α : K) : K → List K → Nat → Option Nat
  | _, [], _ => none
  | acc, w :: ws, k => if acc < α ∧ α ≤ acc + w then some k else findCum α (acc + w) ws (k + 1)

theorem findIdx_cum (α : K) : ∀ (ws : List K) (acc : K) (k : Nat),
    findIdx α (acc :: (cumFrom acc ws).dropLast) (cumFrom acc ws) k = findCum α acc ws k
  | [], acc, k => by simp [cumFrom, findIdx, findCum]
  | [w], acc, k => by simp [cumFrom, findIdx, findCum]
  | w :: w' :: ws, acc, k => by
    have ih := findIdx_cum α (w' :: ws) (acc + w) (k + 1)
    rw [cumFrom] at ih
    rw [cumFrom, cumFrom, List.dropLast_cons_cons, findIdx, findCum, ih]

theorem setLast_cumFrom : ∀ (ws : List K) (acc : K),
    setLast (cumFrom acc ws) (acc + ws.sum) = cumFrom acc ws
  | [], acc => by simp [cumFrom, setLast]
  | [w], acc => by simp [cumFrom, setLast]
  | w :: w' :: ws, acc => by
    have ih := setLast_cumFrom (w' :: ws) (acc + w)
    rw [cumFrom] at ih
    rw [cumFrom, cumFrom]
    have e : ∀ (a b : K) (l : List K) (v : K), setLast (a :: b :: l) v = a :: setLast (b :: l) v := by
      intro a b l v; simp [setLast]
    rw [e, List.sum_cons, ← add_assoc, ih]

theorem findCum_spec (α : K) : ∀ (L : List (K × K)) (acc : K) (k0 : Nat),
    (∀ p ∈ L, 0 ≤ p.2) → L.Pairwise (fun a b => a.1 ≤ b.1) → acc < α →
    α ≤ acc + (L.map (·.2)).sum →
    ∃ k p, findCum α acc (L.map (·.2)) k0 = some (k0 + k) ∧ L[k]? = some p ∧
      α ≤ acc + fsum (fun r => decide (r.1 ≤ p.1)) L ∧
      acc + fsum (fun r => decide (r.1 < p.1)) L < α
  | [], acc, k0, _, _, h1, h2 => by
    simp at h2; exact absurd h1 (not_lt.2 h2)
  | p0 :: L, acc, k0, hnn, hsorted, h1, h2 => by
    rw [List.pairwise_cons] at hsorted
    have hp0 := hnn p0 (List.mem_cons_self ..)
    have hnn' : ∀ p ∈ L, 0 ≤ p.2 := fun b hb => hnn b (List.mem_cons_of_mem _ hb)
    by_cases h : acc < α ∧ α ≤ acc + p0.2
    · refine ⟨0, p0, ?_, by simp, ?_, ?_⟩
      · simp [findCum, h]
      · rw [fsum_cons]
        have := fsum_nonneg (fun r => decide (r.1 ≤ p0.1)) L hnn'
        simp only [le_refl, decide_true, if_true]
        linarith [h.2]
      · rw [fsum_cons, fsum_eq_zero]
        · simpa using h1
        · intro p hp
          simpa using hsorted.1 p hp
    · have h3 : acc + p0.2 < α := by
        by_contra hc
        exact h ⟨h1, not_lt.1 hc⟩
      have h4 : α ≤ acc + p0.2 + (L.map (·.2)).sum := by
        simpa [add_assoc] using h2
      obtain ⟨k, p, hk, hp, hle, hlt⟩ :=
        findCum_spec α L (acc + p0.2) (k0 + 1) hnn' hsorted.2 h3 h4
      refine ⟨k + 1, p, ?_, by simpa using hp, ?_, ?_⟩
      · rw [List.map_cons, findCum, if_neg h, hk]
        congr 1; omega
      · rw [fsum_cons]
        have hm : p0.1 ≤ p.1 := hsorted.1 p (List.mem_of_getElem? hp)
        simp only [hm, decide_true, if_true]
        linarith
      · rw [fsum_cons]
        split <;> linarith

/-! ### evaluating `weightedQuantile` -/

/-- the `α ≠ 0` branch as a function of the normalised weights -/
def wqCore (sort : List (K × K) → List (K × K)) (x nw : List K) (α : K) : Option K :=
  let sorted := sort (x.zip nw)
  let upper := setLast (cumFrom 0 (sorted.map (·.2))) 1
  let lower := (0 : K) :: upper.dropLast
  match findIdx α lower upper 0 with
  | none => none
  | some k => sorted[k]?.map (·.1)

theorem wq_pos (sort : List (K × K) → List (K × K)) (x w : List K) (α : K) (h : α ≠ 0) :
    weightedQuantile sort x (some w) α = wqCore sort x (w.map (fun a => a / w.sum)) α := by
  unfold weightedQuantile wqCore
  simp only [Option.getD_some, if_neg h]
  rfl

theorem wq_zero (sort : List (K × K) → List (K × K)) (x w : List K) :
    weightedQuantile sort x (some w) 0 = (sort (x.zip w)).head?.map (·.1) := by
  unfold weightedQuantile
  simp only [Option.getD_some, if_true]

theorem zip_snd_nonneg (x w : List K) (hw : ∀ a ∈ w, 0 ≤ a) : ∀ p ∈ x.zip w, 0 ≤ p.2 := by
  intro p hp
  exact hw _ (List.of_mem_zip (a := p.1) (b := p.2) hp).2

theorem quantile_char_strong (sort : List (K × K) → List (K × K)) (hs : SortOK sort) (x w : List K)
    (α : K) (hlen : x.length = w.length) (hw : ∀ a ∈ w, 0 ≤ a) (hsum : 0 < w.sum)
    (hα0 : 0 < α) (hα1 : α ≤ 1) :
    ∃ q, weightedQuantile sort x (some w) α = some q ∧ q ∈ x ∧ α * w.sum ≤ wLE x w q ∧
      wLT x w q < α * w.sum := by
  rw [wq_pos sort x w α hα0.ne']
  have hperm := (hs (x.zip (w.map (fun a => a / w.sum)))).1
  have hsorted := (hs (x.zip (w.map (fun a => a / w.sum)))).2
  have hnn : ∀ p ∈ sort (x.zip (w.map (fun a => a / w.sum))), 0 ≤ p.2 := by
    intro p hp
    refine zip_snd_nonneg x _ ?_ p (hperm.mem_iff.1 hp)
    intro a ha
    obtain ⟨b, hb, rfl⟩ := List.mem_map.1 ha
    exact div_nonneg (hw b hb) hsum.le
  have hsum1 : ((sort (x.zip (w.map (fun a => a / w.sum)))).map (·.2)).sum = 1 := by
    rw [(hperm.map _).sum_eq, List.map_snd_zip (by simp [hlen]), sum_map_div_const,
      div_self hsum.ne']
  obtain ⟨k, p, hk, hp, hle, hlt⟩ := findCum_spec α _ 0 0 hnn hsorted hα0 (by rw [hsum1]; linarith)
  have hscale : ∀ P : K × K → Bool, (∀ p : K × K, P (p.1, p.2 / w.sum) = P p) →
      fsum P (sort (x.zip (w.map (fun a => a / w.sum)))) = fsum P (x.zip w) / w.sum := by
    intro P hP
    rw [fsum_perm P hperm, List.zip_map_right,
      fsum_map_snd P _ _ hP (w.sum)⁻¹ (fun a => by rw [div_eq_inv_mul]), inv_mul_eq_div]
  refine ⟨p.1, ?_, ?_, ?_, ?_⟩
  · unfold wqCore
    have e := setLast_cumFrom ((sort (x.zip (w.map (fun a => a / w.sum)))).map (·.2)) 0
    rw [hsum1, zero_add] at e
    simp only [e, findIdx_cum, hk, zero_add, hp, Option.map_some]
  · have := hperm.mem_iff.1 (List.mem_of_getElem? hp)
    exact (List.of_mem_zip (a := p.1) (b := p.2) this).1
  · rw [hscale _ (fun _ => rfl), zero_add] at hle
    rw [wLE_eq]
    exact (le_div_iff₀ hsum).1 hle
  · rw [hscale _ (fun _ => rfl), zero_add] at hlt
    rw [wLT_eq]
    exact (div_lt_iff₀ hsum).1 hlt

theorem quantile_char' (sort : List (K × K) → List (K × K)) (hs : SortOK sort) (x w : List K) (α : K)
    (hlen : x.length = w.length) (hw : ∀ a ∈ w, 0 ≤ a) (hsum : 0 < w.sum)
    (hα0 : 0 < α) (hα1 : α ≤ 1) :
    ∃ q, weightedQuantile sort x (some w) α = some q ∧ q ∈ x ∧ α * w.sum ≤ wLE x w q ∧
      ∀ v ∈ x, v < q → wLE x w v < α * w.sum := by
  obtain ⟨q, h1, h2, h3, h4⟩ := quantile_char_strong sort hs x w α hlen hw hsum hα0 hα1
  refine ⟨q, h1, h2, h3, ?_⟩
  intro v _ hv
  refine lt_of_le_of_lt ?_ h4
  rw [wLE_eq, wLT_eq]
  refine fsum_mono _ _ _ (zip_snd_nonneg x w hw) ?_
  intro p _ hp
  simp only [decide_eq_true_eq] at hp ⊢
  exact lt_of_le_of_lt hp hv

theorem quantile_zero' (sort : List (K × K) → List (K × K)) (hs : SortOK sort) (x w : List K)
    (hlen : x.length = w.length) (hne : x ≠ []) :
    ∃ q, weightedQuantile sort x (some w) 0 = some q ∧ q ∈ x ∧ ∀ v ∈ x, q ≤ v := by
  rw [wq_zero]
  have hperm := (hs (x.zip w)).1
  have hsorted := (hs (x.zip w)).2
  cases hL : sort (x.zip w) with
  | nil =>
    rw [hL] at hperm
    have h0 : (x.zip w).length = 0 := by rw [← hperm.length_eq]; rfl
    rw [List.length_zip, ← hlen, Nat.min_self] at h0
    exact absurd (List.eq_nil_of_length_eq_zero h0) hne
  | cons p L =>
    rw [hL] at hperm hsorted
    refine ⟨p.1, by simp, ?_, ?_⟩
    · have := hperm.mem_iff.1 (List.mem_cons_self ..)
      exact (List.of_mem_zip (a := p.1) (b := p.2) this).1
    · intro v hv
      rw [← List.map_fst_zip (l₁ := x) (l₂ := w) (by omega)] at hv
      obtain ⟨r, hr, rfl⟩ := List.mem_map.1 hv
      rcases List.mem_cons.1 (hperm.mem_iff.2 hr) with rfl | hr'
      · exact le_refl _
      · exact (List.pairwise_cons.1 hsorted).1 r hr'

theorem ne_nil_of_sum_pos (x w : List K) (hlen : x.length = w.length) (hsum : 0 < w.sum) :
    x ≠ [] := by
  rintro rfl
  have : w = [] := List.eq_nil_of_length_eq_zero hlen.symm
  rw [this] at hsum
  simp at hsum

theorem quantile_spec' (sort : List (K × K) → List (K × K)) (hs : SortOK sort) (x w : List K) (α : K)
    (hlen : x.length = w.length) (hw : ∀ a ∈ w, 0 ≤ a) (hsum : 0 < w.sum)
    (hα0 : 0 ≤ α) (hα1 : α ≤ 1) :
    ∃ q, weightedQuantile sort x (some w) α = some q ∧ q ∈ x ∧
      α ≤ wLE x w q / w.sum ∧ wLT x w q / w.sum ≤ α := by
  rcases hα0.eq_or_lt with rfl | hpos
  · obtain ⟨q, h1, h2, h3⟩ := quantile_zero' sort hs x w hlen (ne_nil_of_sum_pos x w hlen hsum)
    refine ⟨q, h1, h2, ?_, ?_⟩
    · rw [wLE_eq]
      exact div_nonneg (fsum_nonneg _ _ (zip_snd_nonneg x w hw)) hsum.le
    · rw [wLT_eq, fsum_eq_zero, zero_div]
      intro p hp
      have := h3 p.1 (List.of_mem_zip (a := p.1) (b := p.2) hp).1
      simpa using this
  · obtain ⟨q, h1, h2, h3, h4⟩ := quantile_char_strong sort hs x w α hlen hw hsum hpos hα1
    exact ⟨q, h1, h2, (le_div_iff₀ hsum).2 h3, (div_le_iff₀ hsum).2 h4.le⟩

theorem quantile_mono' (sort : List (K × K) → List (K × K)) (hs : SortOK sort) (x w : List K) (α β : K)
    (hlen : x.length = w.length) (hw : ∀ a ∈ w, 0 ≤ a) (hsum : 0 < w.sum)
    (hα0 : 0 ≤ α) (hαβ : α ≤ β) (hβ1 : β ≤ 1) (qa qb : K)
    (ha : weightedQuantile sort x (some w) α = some qa)
    (hb : weightedQuantile sort x (some w) β = some qb) : qa ≤ qb := by
  have hqb : qb ∈ x := by
    obtain ⟨q, h1, h2, _⟩ := quantile_spec' sort hs x w β hlen hw hsum (hα0.trans hαβ) hβ1
    rw [hb] at h1
    cases h1; exact h2
  rcases hα0.eq_or_lt with rfl | hpos
  · obtain ⟨q, h1, _, h3⟩ := quantile_zero' sort hs x w hlen (ne_nil_of_sum_pos x w hlen hsum)
    rw [ha] at h1
    cases h1; exact h3 qb hqb
  · obtain ⟨q, h1, _, h3, h4⟩ := quantile_char' sort hs x w α hlen hw hsum hpos (hαβ.trans hβ1)
    obtain ⟨q', h1', _, h3', _⟩ :=
      quantile_char' sort hs x w β hlen hw hsum (hpos.trans_le hαβ) hβ1
    rw [ha] at h1; cases h1
    rw [hb] at h1'; cases h1'
    by_contra hc
    have h5 := h4 qb hqb (not_le.1 hc)
    have h6 : α * w.sum ≤ β * w.sum := mul_le_mul_of_nonneg_right hαβ hsum.le
    linarith

theorem quantile_sort_indep' (s₁ s₂ : List (K × K) → List (K × K)) (h₁ : SortOK s₁) (h₂ : SortOK s₂)
    (x w : List K) (α : K) (hlen : x.length = w.length) (hw : ∀ a ∈ w, 0 ≤ a) (hsum : 0 < w.sum)
    (hα0 : 0 ≤ α) (hα1 : α ≤ 1) :
    weightedQuantile s₁ x (some w) α = weightedQuantile s₂ x (some w) α := by
  rcases hα0.eq_or_lt with rfl | hpos
  · obtain ⟨q, h1, h2, h3⟩ := quantile_zero' s₁ h₁ x w hlen (ne_nil_of_sum_pos x w hlen hsum)
    obtain ⟨q', h1', h2', h3'⟩ := quantile_zero' s₂ h₂ x w hlen (ne_nil_of_sum_pos x w hlen hsum)
    rw [h1, h1', le_antisymm (h3 q' h2') (h3' q h2)]
  · obtain ⟨q, h1, h2, h3, h4⟩ := quantile_char' s₁ h₁ x w α hlen hw hsum hpos hα1
    obtain ⟨q', h1', h2', h3', h4'⟩ := quantile_char' s₂ h₂ x w α hlen hw hsum hpos hα1
    rw [h1, h1']
    congr 1
    rcases lt_trichotomy q q' with hlt | heq | hgt
    · have := h4' q h2 hlt; linarith
    · exact heq
    · have := h4 q' h2' hgt; linarith

set_option linter.unusedVariables false in
theorem quantile_scale_inv' (sort : List (K × K) → List (K × K)) (hs : SortOK sort) (x w : List K)
    (α c : K) (hlen : x.length = w.length) (hw : ∀ a ∈ w, 0 ≤ a) (hsum : 0 < w.sum)
    (hα0 : 0 ≤ α) (hα1 : α ≤ 1) (hc : 0 < c) :
    weightedQuantile sort x (some (w.map (fun a => c * a))) α = weightedQuantile sort x (some w) α := by
  rcases hα0.eq_or_lt with rfl | hpos
  · have hne := ne_nil_of_sum_pos x w hlen hsum
    obtain ⟨q, h1, h2, h3⟩ := quantile_zero' sort hs x w hlen hne
    obtain ⟨q', h1', h2', h3'⟩ :=
      quantile_zero' sort hs x (w.map (fun a => c * a)) (by simpa using hlen) hne
    rw [h1, h1', le_antisymm (h3 q' h2') (h3' q h2)]
  · rw [wq_pos _ _ _ _ hpos.ne', wq_pos _ _ _ _ hpos.ne']
    congr 1
    have e1 : (w.map (fun a => c * a)).sum = c * w.sum := by
      simpa using sum_map_const_mul w id c
    rw [List.map_map, e1]
    apply List.map_congr_left
    intro a _
    simp only [Function.comp]
    exact mul_div_mul_left a w.sum hc.ne'

/-! ### weighted variance -/

theorem wvar_formula' (x w : List K) :
    weightedVar x (some w) =
      ((x.zip w).map (fun p => p.2 * (p.1 - ((x.zip w).map (fun p => p.1 * p.2)).sum / w.sum) ^ 2)).sum
        / (w.sum - (w.map (fun a => a ^ 2)).sum / w.sum) := by
  unfold weightedVar average
  simp only [Option.getD_some, sq]

theorem zip_ones_map {β : Type} (x : List K) (f : K × K → β) :
    (x.zip (List.replicate x.length (1 : K))).map f = x.map (fun a => f (a, 1)) := by
  induction x with
  | nil => simp
  | cons a l ih => simp [List.replicate_succ, ih]

theorem wvar_equal_weights' (x : List K) (hn : 2 ≤ x.length) :
    weightedVar x none =
      (x.map (fun a => (a - x.sum / (x.length : K)) ^ 2)).sum / ((x.length : K) - 1) := by
  have hn0 : (x.length : K) ≠ 0 := by
    have : 0 < x.length := by omega
    exact_mod_cast this.ne'
  unfold weightedVar average
  simp only [Option.getD_none, ones, zip_ones_map, List.map_replicate, List.sum_replicate,
    mul_one, one_mul, nsmul_eq_mul, div_self hn0, List.map_id', sq]

set_option linter.unusedVariables false in
theorem wvar_weight_scale_inv' (x w : List K) (c : K) (hc : c ≠ 0) (hlen : x.length = w.length)
    (hsum : w.sum ≠ 0) :
    weightedVar x (some (w.map (fun a => c * a))) = weightedVar x (some w) := by
  rw [wvar_formula', wvar_formula']
  have e1 : (w.map (fun a => c * a)).sum = c * w.sum := by
    simpa using sum_map_const_mul w id c
  have e2 : ((w.map (fun a => c * a)).map (fun a => a ^ 2)).sum = c ^ 2 * (w.map (fun a => a ^ 2)).sum := by
    rw [List.map_map, ← sum_map_const_mul]
    congr 1
    apply List.map_congr_left
    intro a _
    simp only [Function.comp]; ring
  have e3 : ((x.zip (w.map (fun a => c * a))).map (fun p => p.1 * p.2)).sum
      = c * ((x.zip w).map (fun p => p.1 * p.2)).sum := by
    rw [List.zip_map_right, List.map_map, ← sum_map_const_mul]
    congr 1
    apply List.map_congr_left
    intro p _
    simp only [Function.comp, Prod.map, id]; ring
  rw [e1, e2, e3, mul_div_mul_left _ _ hc]
  have e4 : ((x.zip (w.map (fun a => c * a))).map
      (fun p => p.2 * (p.1 - ((x.zip w).map (fun p => p.1 * p.2)).sum / w.sum) ^ 2)).sum
      = c * ((x.zip w).map
      (fun p => p.2 * (p.1 - ((x.zip w).map (fun p => p.1 * p.2)).sum / w.sum) ^ 2)).sum := by
    rw [List.zip_map_right, List.map_map, ← sum_map_const_mul]
    congr 1
    apply List.map_congr_left
    intro p _
    simp only [Function.comp, Prod.map, id]; ring
  rw [e4]
  have e5 : c * w.sum - c ^ 2 * (w.map (fun a => a ^ 2)).sum / (c * w.sum)
      = c * (w.sum - (w.map (fun a => a ^ 2)).sum / w.sum) := by
    field_simp
  rw [e5, mul_div_mul_left _ _ hc]

/-! ### effective sample size -/

theorem normalizeWeights_ok (w : List K) (hw : ∀ a ∈ w, 0 ≤ a) (hsum : 0 < w.sum) :
    normalizeWeights w = .ok (w.map (fun a => a / w.sum)) := by
  unfold normalizeWeights
  have h1 : w.any (fun a => decide (a < 0)) = false := by
    rw [List.any_eq_false]
    intro a ha
    simpa using hw a ha
  rw [h1]
  simp [hsum.ne']

theorem ess_formula' (w : List K) (hw : ∀ a ∈ w, 0 ≤ a) (hsum : 0 < w.sum) :
    computeEss w = .ok (w.sum ^ 2 / (w.map (fun a => a ^ 2)).sum) := by
  unfold computeEss
  rw [normalizeWeights_ok w hw hsum]
  simp only
  congr 1
  have e : ((w.map (fun a => a / w.sum)).map (fun a => a * a)).sum
      = (w.map (fun a => a ^ 2)).sum / w.sum ^ 2 := by
    rw [List.map_map, ← sum_map_div_const, List.map_map]
    congr 1
    apply List.map_congr_left
    intro a _
    simp only [Function.comp]
    field_simp
  rw [e, sum_map_div_const, div_self hsum.ne']
  field_simp

theorem ess_rejects_negative' (w : List K) (h : ∃ a ∈ w, a < 0) :
    computeEss w = .error .valueError := by
  unfold computeEss normalizeWeights
  have h1 : w.any (fun a => decide (a < 0)) = true := by
    rw [List.any_eq_true]
    obtain ⟨a, ha, hlt⟩ := h
    exact ⟨a, ha, by simpa using hlt⟩
  rw [h1]
  simp

theorem ess_rejects_all_zero' (w : List K) (h : w.sum = 0) : computeEss w = .error .valueError := by
  unfold computeEss normalizeWeights
  rw [if_pos h, ite_self]

/-! ### Gaussian mixture -/

theorem gm_pdf_sum' (N : List K → List K → K) (means : MeansArg K) (w x : List K)
    (hshape : match means with
      | .mat rows d => ¬(rows.length = 1 ∧ d ≠ 1)
      | _ => True)
    (hw : ∀ a ∈ w, 0 ≤ a) (hsum : 0 < w.sum) :
    gmPdf N means (some w) x = .ok (gmPdfSpec N means w x) := by
  have hc : squeezedComponents means = intendedComponents means := by
    cases means with
    | scalar m => rfl
    | vec ms => rfl
    | mat rows d =>
      simp only [squeezedComponents, intendedComponents]
      rw [if_neg hshape]
  unfold gmPdf gmPdfSpec
  simp only [Option.getD_some]
  rw [normalizeWeights_ok w hw hsum, hc]
  simp only [List.zip_map_right, List.map_map]
  rfl

theorem gm_pdf_single_component_counterexample' :
    ∃ (N : List Rat → List Rat → Rat) (means : MeansArg Rat) (w x : List Rat),
      (∀ a ∈ w, 0 ≤ a) ∧ 0 < w.sum ∧
      gmPdf N means none x ≠ .ok (gmPdfSpec N means w x) ∧ w = ones (intendedComponents means).length := by
  refine ⟨fun _ m => (m.length : Rat), .mat [[1, 2]] 2, [1], [0, 0], ?_, ?_, ?_, ?_⟩
  · simp
  · simp
  · simp [gmPdf, gmPdfSpec, squeezedComponents, intendedComponents, normalizeWeights, ones]
    norm_num
  · rfl

/-! ### accept-until-full loop -/

theorem rvsLoop_inv {α : Type} (draw : Nat → Nat → List α) (ok : α → Bool) (size : Nat) :
    ∀ (fuel t : Nat) (acc out : List α), acc.length ≤ size → (∀ a ∈ acc, ok a = true) →
      rvsLoop draw ok size fuel t acc = some out → out.length = size ∧ ∀ a ∈ out, ok a = true := by
  intro fuel
  induction fuel with
  | zero => intro t acc out _ _ h; simp [rvsLoop] at h
  | succ n ih =>
    intro t acc out hl hok h
    rw [rvsLoop] at h
    split at h
    · refine ih _ _ _ ?_ ?_ h
      · rw [List.length_append]
        have h1 := List.length_filter_le ok ((draw t (size - acc.length)).take (size - acc.length))
        have h2 := List.length_take_le (size - acc.length) (draw t (size - acc.length))
        omega
      · intro a ha
        rcases List.mem_append.1 ha with ha | ha
        · exact hok a ha
        · exact (List.mem_filter.1 ha).2
    · cases h
      exact ⟨by omega, hok⟩

theorem rvs_constrained' {α : Type} (draw : Nat → Nat → List α) (ok : α → Bool) (size fuel : Nat)
    (out : List α) (h : rvsConstrained draw ok size fuel = some out) :
    out.length = size ∧ ∀ a ∈ out, ok a = true :=
  rvsLoop_inv draw ok size fuel 0 [] out (Nat.zero_le _) (by simp) h

end ElfiVerif.Stats
