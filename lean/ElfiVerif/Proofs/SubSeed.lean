import ElfiVerif.Model.SubSeed

/-! Helper lemmas for C15.  Core Lean only. -/
namespace ElfiVerif.SubSeed

/-- the set (in first-occurrence order) of the values among the first `p` stream elements -/
def prefixSet (s : Nat → Nat) : Nat → List Nat
  | 0 => []
  | p + 1 => ins (s p) (prefixSet s p)

theorem ins_length_le (x : Nat) (l : List Nat) : l.length ≤ (ins x l).length := by
  unfold ins; split <;> simp

theorem ins_length_le_succ (x : Nat) (l : List Nat) : (ins x l).length ≤ l.length + 1 := by
  unfold ins; split <;> simp

theorem mem_ins_self (x : Nat) (l : List Nat) : x ∈ ins x l := by
  unfold ins; split <;> simp [*]

theorem mem_ins_of_mem {x y : Nat} {l : List Nat} (h : y ∈ l) : y ∈ ins x l := by
  unfold ins; split <;> simp [*]

theorem mem_ins {x y : Nat} {l : List Nat} : y ∈ ins x l ↔ y = x ∨ y ∈ l := by
  unfold ins; split
  · constructor
    · intro h; exact Or.inr h
    · rintro (h | h)
      · subst h; assumption
      · exact h
  · simp [or_comm]

theorem ins_length_eq_iff (x : Nat) (l : List Nat) : (ins x l).length = l.length ↔ x ∈ l := by
  unfold ins; split <;> simp [*]

theorem prefixSet_length_mono (s : Nat → Nat) {p q : Nat} (h : p ≤ q) :
    (prefixSet s p).length ≤ (prefixSet s q).length := by
  induction q with
  | zero => have : p = 0 := by omega
            subst this; exact Nat.le_refl _
  | succ q ih =>
    by_cases hq : p = q + 1
    · subst hq; exact Nat.le_refl _
    · exact Nat.le_trans (ih (by omega)) (ins_length_le _ _)

theorem prefixSet_length_le (s : Nat → Nat) (p : Nat) : (prefixSet s p).length ≤ p := by
  induction p with
  | zero => simp [prefixSet]
  | succ p ih => exact Nat.le_trans (ins_length_le_succ _ _) (by omega)

theorem mem_prefixSet {s : Nat → Nat} {p : Nat} {v : Nat} :
    v ∈ prefixSet s p ↔ ∃ q, q < p ∧ s q = v := by
  induction p with
  | zero => simp [prefixSet]
  | succ p ih =>
    simp only [prefixSet, mem_ins, ih]
    constructor
    · rintro (h | ⟨q, hq, hs⟩)
      · exact ⟨p, by omega, h.symm⟩
      · exact ⟨q, by omega, hs⟩
    · rintro ⟨q, hq, hs⟩
      by_cases hqp : q = p
      · subst hqp; exact Or.inl hs.symm
      · exact Or.inr ⟨q, by omega, hs⟩

theorem prefixSet_nodup (s : Nat → Nat) (p : Nat) : (prefixSet s p).Nodup := by
  induction p with
  | zero => simp [prefixSet]
  | succ p ih =>
    simp only [prefixSet, ins]
    split
    · exact ih
    · rename_i h
      rw [List.nodup_append]
      refine ⟨ih, by simp, ?_⟩
      intro a ha b hb
      simp at hb; subst hb
      intro hab; subst hab; exact h ha

theorem insAll_chunk (s : Nat → Nat) (pos n : Nat) :
    insAll (chunk s pos n) (prefixSet s pos) = prefixSet s (pos + n) := by
  induction n with
  | zero => simp [chunk, insAll]
  | succ n ih =>
    unfold chunk insAll at *
    rw [List.range_succ, List.map_append, List.foldl_append, ih]
    simp [prefixSet, ← Nat.add_assoc]

theorem chunk_getLast? (s : Nat → Nat) (pos n : Nat) (hn : 0 < n) :
    (chunk s pos n).getLast? = some (s (pos + n - 1)) := by
  obtain ⟨m, rfl⟩ : ∃ m, n = m + 1 := ⟨n - 1, by omega⟩
  unfold chunk
  rw [List.range_succ, List.map_append]
  simp

/-- `p` is the stream position at which the `(i+1)`-th distinct value first appears -/
def IsNthDistinctPos (s : Nat → Nat) (i p : Nat) : Prop :=
  (prefixSet s p).length = i ∧ (prefixSet s (p + 1)).length = i + 1

theorem IsNthDistinctPos.unique {s : Nat → Nat} {i p q : Nat}
    (hp : IsNthDistinctPos s i p) (hq : IsNthDistinctPos s i q) : p = q := by
  rcases Nat.lt_trichotomy p q with h | h | h
  · have := prefixSet_length_mono s (show p + 1 ≤ q by omega)
    rw [hp.2, hq.1] at this; omega
  · exact h
  · have := prefixSet_length_mono s (show q + 1 ≤ p by omega)
    rw [hq.2, hp.1] at this; omega

theorem IsNthDistinctPos.fresh {s : Nat → Nat} {i p : Nat} (hp : IsNthDistinctPos s i p) :
    s p ∉ prefixSet s p := by
  intro h
  have := (ins_length_eq_iff (s p) (prefixSet s p)).mpr h
  have h2 := hp.2
  simp only [prefixSet] at h2
  rw [this, hp.1] at h2; omega

theorem IsNthDistinctPos.lt_of_lt {s : Nat → Nat} {i j p q : Nat}
    (hp : IsNthDistinctPos s i p) (hq : IsNthDistinctPos s j q) (hij : i < j) : p < q := by
  refine Nat.lt_of_not_le (fun h => ?_)
  have := prefixSet_length_mono s (show q + 1 ≤ p + 1 by omega)
  rw [hq.2, hp.2] at this; omega

theorem prefixSet_add_succ (s : Nat → Nat) (pos n : Nat) :
    prefixSet s (pos + (n + 1)) = ins (s (pos + n)) (prefixSet s (pos + n)) := rfl

theorem prefixSet_length_add (s : Nat → Nat) (pos n : Nat) :
    (prefixSet s (pos + n)).length ≤ (prefixSet s pos).length + n := by
  induction n with
  | zero => simp
  | succ n ihn =>
    rw [prefixSet_add_succ]
    have := ins_length_le_succ (s (pos + n)) (prefixSet s (pos + n))
    omega

/-- Main loop lemma.  Started in a state that is a prefix state of the stream with fewer than
    `req` distinct values seen (or with exactly `req` and a `last` value already recorded that is
    the value at the previous position, which was fresh), the loop returns the value at the position
    where the `req`-th distinct value first appears, and leaves the state just behind it. -/
theorem loop_spec (s : Nat → Nat) (req : Nat) :
    ∀ (fuel pos : Nat) (last : Option Nat) (v : Nat) (c : Cache),
      ((prefixSet s pos).length < req ∨
        ((prefixSet s pos).length = req ∧ ∃ p, pos = p + 1 ∧ last = some (s p) ∧
            (prefixSet s p).length + 1 = req)) →
      loop s req fuel pos (prefixSet s pos) last = .ok (v, c) →
      ∃ p, (prefixSet s p).length + 1 = req ∧ (prefixSet s (p + 1)).length = req ∧
        v = s p ∧ c = ⟨p + 1, prefixSet s (p + 1)⟩ := by
  intro fuel
  induction fuel with
  | zero => intro pos last v c _ h; simp [loop] at h
  | succ fuel ih =>
    intro pos last v c hinv h
    unfold loop at h
    split at h
    · rename_i hlen
      rcases hinv with hlt | ⟨_, p, hpos, hlast, hprev⟩
      · omega
      · subst hpos; subst hlast
        simp only [Except.ok.injEq, Prod.mk.injEq] at h
        exact ⟨p, hprev, hlen, h.1.symm, h.2.symm⟩
    · rename_i hlen
      have hlt : (prefixSet s pos).length < req := by
        rcases hinv with hlt | ⟨h1, _⟩
        · exact hlt
        · exact absurd h1 hlen
      simp only at h
      obtain ⟨m, hm⟩ : ∃ m, req - (prefixSet s pos).length = m + 1 :=
        ⟨req - (prefixSet s pos).length - 1, by omega⟩
      rw [insAll_chunk, chunk_getLast? _ _ _ (by omega), hm] at h
      refine ih _ _ v c ?_ h
      have hle := prefixSet_length_add s pos (m + 1)
      have hm' := prefixSet_length_add s pos m
      rcases Nat.lt_or_ge (prefixSet s (pos + (m + 1))).length req with h2 | h2
      · exact Or.inl h2
      · right
        refine ⟨by omega, pos + m, rfl, ?_, ?_⟩
        · have : pos + (m + 1) - 1 = pos + m := by omega
          rw [this]
        · rw [prefixSet_add_succ] at h2 hle
          have := ins_length_le_succ (s (pos + m)) (prefixSet s (pos + m))
          omega

theorem loop_fuel_mono (s : Nat → Nat) (req : Nat) (k : Nat) :
    ∀ (fuel pos : Nat) (seen : List Nat) (last : Option Nat) (r : Nat × Cache),
      loop s req fuel pos seen last = .ok r → loop s req (fuel + k) pos seen last = .ok r := by
  intro fuel
  induction fuel with
  | zero => intro pos seen last r h; simp [loop] at h
  | succ fuel ih =>
    intro pos seen last r h
    rw [show fuel + 1 + k = (fuel + k) + 1 by omega]
    unfold loop at h ⊢
    split
    · rename_i hlen; rw [if_pos hlen] at h; exact h
    · rename_i hlen; rw [if_neg hlen] at h; exact ih _ _ _ _ h

end ElfiVerif.SubSeed
