import ElfiVerif.Model.Tools
import ElfiVerif.Props.C15
import Mathlib.Data.List.Basic

/-! Proofs for C18 (statements are repeated in Props/C18.lean). -/
namespace ElfiVerif.Tools

variable {V R : Type}

/-- characterisation of a successful first loop -/
theorem batchLen_ok (consts : List Nat) (l : List (Inp V × Nat)) : ∀ (bs r : Option Nat),
    batchLen consts l bs = .ok r →
    (∀ n, bs = some n → r = some n) ∧
    (∀ p ∈ l, ∀ rows, p.1 = Inp.arr rows → p.2 ∉ consts → r = some rows.length) ∧
    (bs = none → (∀ p ∈ l, ∀ rows, p.1 = Inp.arr rows → p.2 ∈ consts) → r = none) := by
  induction l with
  | nil =>
    intro bs r h
    simp only [batchLen, Except.ok.injEq] at h
    subst h
    exact ⟨fun n hn => hn, fun p hp => absurd hp List.not_mem_nil, fun hbs _ => hbs⟩
  | cons hd rest ih =>
    obtain ⟨inp, k⟩ := hd
    intro bs r h
    rw [batchLen.eq_def] at h
    simp only at h
    split at h
    · rename_i hk
      obtain ⟨a, b, c⟩ := ih bs r h
      refine ⟨a, ?_, ?_⟩
      · intro p hp rows hr hc
        rcases List.mem_cons.1 hp with rfl | hp
        · exact absurd hk hc
        · exact b p hp rows hr hc
      · intro hbs hall
        exact c hbs (fun p hp => hall p (List.mem_cons_of_mem _ hp))
    · rename_i hk
      split at h
      · -- scalar
        obtain ⟨a, b, c⟩ := ih bs r h
        refine ⟨a, ?_, ?_⟩
        · intro p hp rows hr hc
          rcases List.mem_cons.1 hp with rfl | hp
          · simp at hr
          · exact b p hp rows hr hc
        · intro hbs hall
          exact c hbs (fun p hp => hall p (List.mem_cons_of_mem _ hp))
      · -- array
        rename_i rows0
        split at h
        · -- bs = none
          obtain ⟨a, b, c⟩ := ih (some rows0.length) r h
          have hr0 : r = some rows0.length := a _ rfl
          refine ⟨fun n hn => by simp at hn, ?_, ?_⟩
          · intro p hp rows hr hc
            rcases List.mem_cons.1 hp with rfl | hp
            · simp only [Inp.arr.injEq] at hr
              subst hr
              exact hr0
            · exact b p hp rows hr hc
          · intro _ hall
            exact absurd (hall (Inp.arr rows0, k) List.mem_cons_self rows0 rfl) hk
        · -- bs = some n
          rename_i n
          split at h
          · rename_i hn
            obtain ⟨a, b, c⟩ := ih (some n) r h
            have hr0 : r = some n := a _ rfl
            refine ⟨a, ?_, fun hbs => by simp at hbs⟩
            · intro p hp rows hr hc
              rcases List.mem_cons.1 hp with rfl | hp
              · simp only [Inp.arr.injEq] at hr
                subst hr
                rw [hr0, hn]
              · exact b p hp rows hr hc
          · simp at h

theorem mem_zipIdx_of_getElem? {inputs : List (Inp V)} {k : Nat} {x : Inp V}
    (h : inputs[k]? = some x) : (x, k) ∈ inputs.zipIdx :=
  List.mem_zipIdx_iff_getElem?.2 h

theorem runVectorized_ok {op : List (Arg V) → Nat → R} {consts : List Nat} {inputs : List (Inp V)}
    {bs : Option Nat} {out : List R} (h : runVectorized op consts inputs bs = .ok out) :
    ∃ r, batchLen consts inputs.zipIdx bs = .ok r ∧
      out = (List.range (r.getD 1)).map (fun i => op (argsFor consts inputs i) i) := by
  unfold runVectorized at h
  split at h
  · simp at h
  · rename_i r hr
    simp only [Except.ok.injEq] at h
    exact ⟨r, hr, h.symm⟩

theorem runVectorized_error_of_not_ok {op : List (Arg V) → Nat → R} {consts : List Nat}
    {inputs : List (Inp V)} {bs : Option Nat}
    (h : ∀ r, batchLen consts inputs.zipIdx bs ≠ .ok r) :
    runVectorized op consts inputs bs = .error .valueError := by
  unfold runVectorized
  split
  · rename_i e _
    cases e
    rfl
  · rename_i r hr
    exact absurd hr (h r)

theorem vectorize_length' (op : List (Arg V) → Nat → R) (consts : List Nat) (inputs : List (Inp V))
    (bs : Option Nat) (out : List R) (h : runVectorized op consts inputs bs = .ok out) :
    (∀ n, bs = some n → out.length = n) ∧
    (∀ k rows, inputs[k]? = some (Inp.arr rows) → k ∉ consts → out.length = rows.length) ∧
    (bs = none → (∀ k rows, inputs[k]? = some (Inp.arr rows) → k ∈ consts) → out.length = 1) := by
  obtain ⟨r, hr, rfl⟩ := runVectorized_ok h
  obtain ⟨a, b, c⟩ := batchLen_ok consts _ bs r hr
  simp only [List.length_map, List.length_range]
  refine ⟨?_, ?_, ?_⟩
  · intro n hn
    rw [a n hn]; rfl
  · intro k rows hk hc
    rw [b (Inp.arr rows, k) (mem_zipIdx_of_getElem? hk) rows rfl hc]; rfl
  · intro hbs hall
    rw [c hbs (fun p hp rows hrows => ?_)]; · rfl
    have := List.mem_zipIdx_iff_getElem?.1 hp
    rw [hrows] at this
    exact hall p.2 rows this

theorem vectorize_rowwise' (op : List (Arg V) → Nat → R) (consts : List Nat) (inputs : List (Inp V))
    (bs : Option Nat) (out : List R) (h : runVectorized op consts inputs bs = .ok out)
    (i : Nat) (hi : i < out.length) :
    ∃ args : List (Arg V), out[i] = op args i ∧ args.length = inputs.length ∧
      ∀ k (hk : k < inputs.length) (hk' : k < args.length),
        (k ∈ consts → args[k] = Arg.whole inputs[k]) ∧
        (∀ v, inputs[k] = Inp.scalar v → args[k] = Arg.whole inputs[k]) ∧
        (∀ rows, inputs[k] = Inp.arr rows → k ∉ consts →
            ∃ hlen : i < rows.length, args[k] = Arg.row rows[i]) := by
  have hlen := (vectorize_length' op consts inputs bs out h).2.1
  obtain ⟨r, hr, rfl⟩ := runVectorized_ok h
  refine ⟨argsFor consts inputs i, ?_, ?_, ?_⟩
  · simp only [List.getElem_map, List.getElem_range]
  · simp only [argsFor, List.length_map, List.length_zipIdx]
  · intro k hk hk'
    have hget : (argsFor consts inputs i)[k] =
        (if isConst consts inputs[k] k then Arg.whole inputs[k]
         else match inputs[k] with
          | .arr rows => (match rows[i]? with | some v => Arg.row v | none => Arg.whole inputs[k])
          | .scalar _ => Arg.whole inputs[k]) := by
      simp only [argsFor, List.getElem_map, List.getElem_zipIdx, Nat.zero_add]
      rfl
    rw [hget]
    refine ⟨?_, ?_, ?_⟩
    · intro hc
      simp [isConst, hc]
    · intro v hv
      simp [isConst, hv]
    · intro rows hrows hc
      have hk? : inputs[k]? = some (Inp.arr rows) := by
        rw [List.getElem?_eq_getElem hk, hrows]
      have hi' : i < rows.length := by
        rw [← hlen k rows hk? hc]; exact hi
      refine ⟨hi', ?_⟩
      simp [isConst, hc, hrows, List.getElem?_eq_getElem hi']

theorem length_mismatch_rejected' (op : List (Arg V) → Nat → R) (consts : List Nat) (inputs : List (Inp V))
    (bs : Option Nat) (k₁ k₂ : Nat) (r₁ r₂ : List V)
    (h₁ : inputs[k₁]? = some (Inp.arr r₁)) (h₂ : inputs[k₂]? = some (Inp.arr r₂))
    (hc₁ : k₁ ∉ consts) (hc₂ : k₂ ∉ consts) (hne : r₁.length ≠ r₂.length) :
    runVectorized op consts inputs bs = .error .valueError := by
  apply runVectorized_error_of_not_ok
  intro r hr
  obtain ⟨_, b, _⟩ := batchLen_ok consts _ bs r hr
  have e₁ := b (Inp.arr r₁, k₁) (mem_zipIdx_of_getElem? h₁) r₁ rfl hc₁
  have e₂ := b (Inp.arr r₂, k₂) (mem_zipIdx_of_getElem? h₂) r₂ rfl hc₂
  rw [e₁] at e₂
  exact hne (Option.some.inj e₂)

theorem batch_size_mismatch_rejected' (op : List (Arg V) → Nat → R) (consts : List Nat) (inputs : List (Inp V))
    (n k : Nat) (rows : List V) (h : inputs[k]? = some (Inp.arr rows)) (hc : k ∉ consts)
    (hne : n ≠ rows.length) :
    runVectorized op consts inputs (some n) = .error .valueError := by
  apply runVectorized_error_of_not_ok
  intro r hr
  obtain ⟨a, b, _⟩ := batchLen_ok consts _ (some n) r hr
  have e₁ := a n rfl
  have e₂ := b (Inp.arr rows, k) (mem_zipIdx_of_getElem? h) rows rfl hc
  rw [e₁] at e₂
  exact hne (Option.some.inj e₂)

theorem external_seed_distinct_rows' (s : Nat → Nat) (f₁ f₂ i j a b : Nat)
    (ha : externalSeed s f₁ (some i) = .ok a) (hb : externalSeed s f₂ (some j) = .ok b) (hij : i ≠ j) :
    a ≠ b := by
  unfold externalSeed at ha hb
  split at ha
  · rename_i va ca hga
    split at hb
    · rename_i vb cb hgb
      simp only [Except.ok.injEq] at ha hb
      subst ha hb
      exact ElfiVerif.SubSeed.injective s (2 ^ 31) f₁ f₂ i j none none trivial trivial _ _ ca cb
        hga hgb hij
    · simp at hb
  · simp at ha

end ElfiVerif.Tools
