import ElfiVerif.Proofs.Rejection
import ElfiVerif.Proofs.Budget

/-!
# C01 — rejection ABC returns exactly the best simulated draws, row-consistent

Property theorems about `Model/Rejection.lean`.  `κ` is ANY linear order with a top element
(`inf`), `sort` ANY sorting permutation (numpy's argsort is not stable: ties may come out in any
order), batches, batch size, sample size and the number of consumed batches are unbounded.
Row consistency is structural: a `Slot` carries the identity of its draw and the model — like
`_merge_batch` — moves whole slots with one permutation; the harness checks on the real sampler
that every returned row of every output column belongs to the same draw id.
-/
namespace ElfiVerif.Rejection

variable {κ : Type} [LinearOrder κ] [OrderTop κ]

/-- the concrete sort used by the driver is a sorting permutation -/
theorem sortByKey_ok : SortOK (sortByKey (κ := κ)) := sortByKey_ok'

/-- **Main theorem.**  For every configuration, every sequence of batches (each of `b` real draws
with distinct identities) and every tie-breaking of the sort: if the run stops having consumed
`st.nBatches` batches among which at least `n` accepted draws have a finite discrepancy, the
returned rows are exactly the `n` smallest accepted consumed draws — `n` of them, each a real
consumed accepted draw, no draw twice, ascending, every accepted consumed draw that was left out is
at least as large as every returned one — the reported threshold is the largest returned
discrepancy and `n_sim = batch_size × consumed batches`. -/
theorem extract_spec (sort : List (Slot κ) → List (Slot κ)) (hs : SortOK sort)
    (est : Nat → Nat → Nat → Nat → Nat) (c : Cfg κ) (batch : Nat → List (Slot κ)) (fuel : Nat)
    (st : St κ) (hn : 0 < c.n) (hb : 0 < c.b)
    (hrun : run sort est c batch fuel (initSt ⊤ c) = some st)
    (hbat : BatchesOK batch c.b st.nBatches)
    (henough : c.n ≤ ((consumed batch st.nBatches).filter
        (fun s => accepted c.thr s && decide (s.key < ⊤))).length) :
    ExtractSpec c.thr c.n (consumed batch st.nBatches) (extract c st).rows (extract c st).threshold
      ∧ (extract c st).nSim = c.b * st.nBatches ∧ (extract c st).nBatches = st.nBatches :=
  extract_spec' sort hs est c batch fuel st hn hb hrun hbat henough

/-- **Budget mode** (`n_sim` given, or `ceil(n_samples/quantile)`; no threshold): exactly
`ceil(budget / batch_size)` batches are consumed — also when `batch_size ∤ budget` — and the run
does stop. -/
theorem budget_batches (sort : List (Slot κ) → List (Slot κ)) (est : Nat → Nat → Nat → Nat → Nat)
    (c : Cfg κ) (batch : Nat → List (Slot κ)) (s : Nat) (hthr : c.thr = none) (hs : c.nSim = some s)
    (hs0 : 0 < s) (hb : 0 < c.b) :
    ∃ st, run sort est c batch ((s + c.b - 1) / c.b + 1) (initSt ⊤ c) = some st ∧
      st.nBatches = (s + c.b - 1) / c.b ∧
      ∀ fuel st', run sort est c batch fuel (initSt ⊤ c) = some st' → st'.nBatches = (s + c.b - 1) / c.b :=
  budget_batches' sort est c batch s hthr hs hs0 hb

/-- **Threshold mode with a finite threshold never stops short**: if the estimate `est` keeps the
objective above the consumed count while fewer than `n` acceptable rows are held (true of the exact
formula: `estExact_margin`), then a finished run has consumed at least `n` accepted finite draws, so
`extract_spec` applies: exactly `n` draws, all `≤ threshold`. -/
theorem threshold_finishes_full (sort : List (Slot κ) → List (Slot κ)) (hs : SortOK sort)
    (est : Nat → Nat → Nat → Nat → Nat) (c : Cfg κ) (batch : Nat → List (Slot κ)) (fuel : Nat)
    (st : St κ) (t : κ) (hthr : c.thr = some t) (ht : t < ⊤) (hn : 0 < c.n) (hb : 0 < c.b)
    (hobj : 0 < initObj c)
    (hest : ∀ nAcc nb, 0 < nAcc → nAcc < c.n → nb < est c.n nAcc (nb * c.b) c.b)
    (hrun : run sort est c batch fuel (initSt ⊤ c) = some st)
    (hbat : BatchesOK batch c.b st.nBatches) :
    c.n ≤ ((consumed batch st.nBatches).filter
        (fun s => accepted c.thr s && decide (s.key < ⊤))).length :=
  threshold_finishes_full' sort hs est c batch fuel st t hthr ht hn hb hobj hest hrun hbat

/-- the exact batch estimate has the margin property required above -/
theorem estExact_margin (n nAcc nb b : Nat) (hb : 0 < b) (h0 : 0 < nAcc) (hlt : nAcc < n) :
    nb < estExact n nAcc (nb * b) b :=
  estExact_margin' n nAcc nb b hb h0 hlt

/-- **The checker run on the real sampler's output is sound and complete** for the specification. -/
theorem checkExtract_iff (thr : Option κ) (n : Nat) (cons out : List (Slot κ)) (threshold : Option κ) :
    checkExtract thr n cons out threshold = true ↔ ExtractSpec thr n cons out threshold :=
  checkExtract_iff' thr n cons out threshold

/-- The finiteness guard of `extract_spec` is necessary for the code as it is (defect replayed on
the real sampler): with `n = 2`, `b = 1`, no threshold, a budget of 2 simulations and two draws of
discrepancy `inf`, the run may return an UNINITIALISED buffer row (origin `none`) instead of a
simulated draw — the stable sort used here does. -/
theorem inf_keys_return_uninitialised :
    ∃ (c : Cfg (WithTop Nat)) (batch : Nat → List (Slot (WithTop Nat))) (r : Result (WithTop Nat)),
      c.thr = none ∧ BatchesOK batch c.b 2 ∧
      sample sortByKey estExact ⊤ c batch 10 = some r ∧ r.nBatches = 2 ∧
      ∃ s ∈ r.rows, s.origin = none :=
  inf_keys_return_uninitialised'

/-- With `threshold = inf` the empty (inf-initialised) buffer rows count as acceptable: the run
stops after ONE batch although `n = 3 > b = 1` draws were requested, and returns uninitialised
rows (defect replayed on the real sampler).  `threshold_finishes_full` needs `t < ⊤`. -/
theorem inf_threshold_stops_early :
    ∃ (c : Cfg (WithTop Nat)) (batch : Nat → List (Slot (WithTop Nat))) (r : Result (WithTop Nat)),
      c.thr = some ⊤ ∧ c.n = 3 ∧ c.b = 1 ∧ (∀ k, BatchesOK batch c.b k) ∧
      sample sortByKey estExact ⊤ c batch 10 = some r ∧ r.nBatches = 1 ∧
      ∃ s ∈ r.rows, s.origin = none :=
  inf_threshold_stops_early'

/-- **The quantile objective's budget is `ceil(n_samples / quantile)`** (quantile `= p / q`, any positive `p`): the least
number of simulations `s` with `s · quantile ≥ n_samples`. -/
theorem quantileBudget_spec (n p q : Nat) (hp : 0 < p) :
    n * q ≤ quantileBudget n p q * p ∧ quantileBudget n p q * p < n * q + p ∧
    ∀ k, n * q ≤ k * p → quantileBudget n p q ≤ k :=
  ⟨(quantileBudget_spec' n p q hp).1, (quantileBudget_spec' n p q hp).2, fun k hk => quantileBudget_least' n p q k hp hk⟩

/-- **… and the batches it stands for are `ceil(budget / batch_size)`** - together with `budget_batches`: a quantile run
consumes exactly `ceil(ceil(n_samples/quantile) / batch_size)` batches. -/
theorem quantileBatches_spec (n p q b : Nat) (hb : 0 < b) :
    quantileBudget n p q ≤ quantileBatches n p q b * b ∧ quantileBatches n p q b * b < quantileBudget n p q + b ∧
    quantileBatches n p q b = (quantileBudget n p q + b - 1) / b :=
  ⟨(quantileBatches_spec' n p q b hb).1, (quantileBatches_spec' n p q b hb).2, rfl⟩

end ElfiVerif.Rejection
