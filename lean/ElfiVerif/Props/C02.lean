import ElfiVerif.Proofs.Exec

/-!
# C02 — seeded runs are pure functions of (model, seed, configuration)

Property theorems about `Model/Exec.lean` for the parts of the property that are logic: the
execution order is a function of the node SET and the edge SET only (insertion order irrelevant),
the order checker is sound, the cached order depends on the set of nodes to run only, and within a
batch ONE generator is threaded through exactly the stochastic nodes that run, in that order.
-/
namespace ElfiVerif.Exec

/-- **Insertion-order independence**: the name-sorted depth-first sort gives the same order for any
listing of the same nodes and the same edges. -/
theorem constTopo_perm_invariant (g₁ g₂ : Graph) (hn : g₁.nodes.Perm g₂.nodes) (he : g₁.edges.Perm g₂.edges) :
    constTopo g₁ = constTopo g₂ :=
  constTopo_perm_invariant' g₁ g₂ hn he

/-- **The order checker (run on the real and the model's order) is sound**: an accepted order lists
exactly the graph's nodes, each once, and every edge goes forward (dependency-respecting). -/
theorem isTopoOrder_sound (g : Graph) (order : List Nat) (h : isTopoOrder g order = true) :
    order.Nodup ∧ (∀ n, n ∈ order ↔ n ∈ g.nodes) ∧
    ∀ e ∈ g.edges, ∃ i j : Nat, order[i]? = some e.1 ∧ order[j]? = some e.2 ∧ i < j :=
  isTopoOrder_sound' g order h

/-- **The executor's order is the fixed sort order restricted to the nodes that run**: a sublist of
it (same relative order), and it depends on the SET of nodes to run only — so the cached and the
freshly computed order agree and earlier batches cannot influence it. -/
theorem executionOrder_spec (sortOrder t₁ t₂ : List Nat) (h : ∀ n, n ∈ t₁ ↔ n ∈ t₂) :
    executionOrder sortOrder t₁ = executionOrder sortOrder t₂ ∧
    (executionOrder sortOrder t₁).Sublist sortOrder ∧
    ∀ n, n ∈ executionOrder sortOrder t₁ ↔ n ∈ sortOrder ∧ n ∈ t₁ :=
  executionOrder_spec' sortOrder t₁ t₂ h

variable {Val Gen : Type}

/-- **Stream discipline I**: running a list of nodes is running its first part and then its second
part from the environment and generator state the first part left (so node k of the order sees the
state after nodes 1..k−1, nothing else). -/
theorem runOrder_append (S : Sem Val Gen) (nodes : Nat → Option ENode) (stored : Nat → Option Val)
    (l₁ l₂ : List Nat) (env : List (Nat × Val)) (g : Gen) :
    runOrder S nodes stored (l₁ ++ l₂) env g =
      (runOrder S nodes stored l₁ env g).bind (fun r => runOrder S nodes stored l₂ r.1 r.2) :=
  runOrder_append' S nodes stored l₁ l₂ env g

/-- **Stream discipline II**: only stochastic nodes that actually run advance the generator:
deterministic nodes and nodes with a stored value leave it untouched. -/
theorem runOrder_gen_untouched (S : Sem Val Gen) (nodes : Nat → Option ENode) (stored : Nat → Option Val)
    (l : List Nat) (env env' : List (Nat × Val)) (g g' : Gen)
    (hdet : ∀ n ∈ l, (stored n).isSome = true ∨ ∃ x, nodes n = some x ∧ x.stochastic = false)
    (h : runOrder S nodes stored l env g = some (env', g')) : g' = g :=
  runOrder_gen_untouched' S nodes stored l env env' g g' hdet h

/-- the batch generator is a function of (seed, batch index) alone -/
theorem batchGen_pure (mk : Nat → Gen) (subSeed : Nat → Nat → Nat) (seed idx : Nat) :
    batchGen mk subSeed seed idx = mk (subSeed seed idx) := rfl

end ElfiVerif.Exec
