import ElfiVerif.Proofs.Compile

/-!
# C03 — compiled execution equals the dataflow meaning of the user's graph

Property theorems about `Model/Compile.lean`: every acyclic source graph (any size, fan-in/out, mix of
positional and named edges, shared constants, partial observations), every set of requested outputs,
every set of supplied values.
-/
namespace ElfiVerif.Compile

/-- **Compiler correctness.**  For a well-formed acyclic source graph, the dataflow meaning of the
compiled and loaded net at every requested USER node is its denotation on the source graph
(operation applied to the parents' values, positional by position and named by name, `batch_size` /
`meta` / `random_state` exactly for the nodes that declare them, `observed =` tuple of the parents'
twins for nodes that use observed data) …  (`hsupnd`: supplied values form a dictionary — one value
per name; `hobs`: observed data is given for nodes of the model.  Without them the statement is
false: machine-checked counter-examples in Proofs/Compile.lean.) -/
theorem compiled_meaning_user (env : Env) (s : Source) (hwf : SourceWF env s) (outputs : List Nat)
    (supplied : List (Nat × Nat)) (hsup : ∀ p ∈ supplied, IsUser s p.1 ∨ IsTwin env s p.1)
    (hsupnd : (supplied.map (·.1)).Nodup) (hobs : ∀ p ∈ s.observed, IsUser s p.1)
    (c : CNet) (hc : compile env s outputs = .ok c) (o : Nat) (ho : o ∈ outputs) (hu : IsUser s o)
    (fuelE fuelD : Nat) (hE : 2 * s.nodes.length + 3 ≤ fuelE) (hD : 2 * s.nodes.length + 2 ≤ fuelD) :
    evalNode (load env s supplied [] c) fuelE o = denote env s supplied fuelD o ∧
      (denote env s supplied fuelD o).isSome = true :=
  compiled_meaning_user_corrected env s hwf outputs supplied hsup hsupnd hobs c hc o ho hu fuelE fuelD hE hD

/-- … and at every requested observed TWIN it is the observed denotation (the given observation, or
the operation applied to the parents' twins). -/
theorem compiled_meaning_twin (env : Env) (s : Source) (hwf : SourceWF env s) (outputs : List Nat)
    (supplied : List (Nat × Nat)) (hsup : ∀ p ∈ supplied, IsUser s p.1 ∨ IsTwin env s p.1)
    (hsupnd : (supplied.map (·.1)).Nodup) (hobs : ∀ p ∈ s.observed, IsUser s p.1)
    (c : CNet) (hc : compile env s outputs = .ok c) (x : SNode) (hx : x ∈ s.nodes) (ht : hasTwin x = true)
    (ho : env.twin x.name ∈ outputs)
    (fuelE fuelD : Nat) (hE : 2 * s.nodes.length + 3 ≤ fuelE) (hD : 2 * s.nodes.length + 2 ≤ fuelD) :
    evalNode (load env s supplied [] c) fuelE (env.twin x.name) = denoteObs env s supplied fuelD x.name ∧
      (denoteObs env s supplied fuelD x.name).isSome = true :=
  compiled_meaning_twin_corrected env s hwf outputs supplied hsup hsupnd hobs c hc x hx ht ho fuelE fuelD hE hD

/-- **Executing along any valid order computes the dataflow meaning**: if the executor's order lists
nodes so that every node comes after the non-supplied parents it needs (any topological order of the
needed nodes does), the returned outputs are the meanings `evalNode`.  (`hop`: a node that carries a
value has no operation left — true of every loaded net.) -/
theorem execute_eq_eval (l : CNet) (hn : (l.nodes.map (·.name)).Nodup)
    (hop : ∀ x ∈ l.nodes, x.output.isSome = true → x.op = none) (order : List Nat)
    (res : List (Nat × Term)) (h : execute l order = some res) (fuel : Nat) (hf : l.nodes.length < fuel)
    (hacy : ∃ r : Nat → Nat, ∀ e ∈ l.edges, r e.src < r e.dst) :
    ∀ p ∈ res, evalNode l fuel p.1 = some p.2 :=
  execute_eq_eval_corrected l hn hop order res h fuel hf hacy

/-- **Only needed operations run, each once**: the set the executor runs has no duplicates, consists
of nodes that still have an operation (a supplied or stored node never runs) and from which a
requested output is reachable. -/
theorem needed_spec (l : CNet) (hn : (l.nodes.map (·.name)).Nodup) :
    (needed l).Nodup ∧
    ∀ n ∈ needed l, (∃ x ∈ l.nodes, x.name = n ∧ x.op.isSome = true) ∧
      ∃ o ∈ l.outputs, reaches (l.edges.filter (fun e => ((l.find e.src).map (·.output.isNone)).getD false))
        l.nodes.length n o = true :=
  needed_spec' l hn

/-- **A graph whose observed data would depend on a stochastic node is rejected, not evaluated**
(after fix 1efc6e7), and nothing else is rejected. -/
theorem stochastic_observed_rejected (env : Env) (s : Source) (outputs : List Nat) :
    (observedDependsOnStochastic env s = true → compile env s outputs = .error .valueError) ∧
    (observedDependsOnStochastic env s = false → ∃ c, compile env s outputs = .ok c) :=
  stochastic_observed_rejected' env s outputs

/-- **Instruction keywords exactly for declaring nodes**: in the compiled structure a user node has an
in-edge from `_batch_size` / `_meta` / `_random_state` iff it declares `uses_batch_size` / `uses_meta`
/ is stochastic, and twins have none. -/
theorem instruction_edges_exact (env : Env) (s : Source) (hwf : SourceWF env s) (x : SNode) (hx : x ∈ s.nodes) :
    let es := (compileAll env s).2
    ((⟨env.bs, x.name, .named env.kwBatchSize⟩ : Edge) ∈ es ↔ x.usesBatchSize = true) ∧
    ((⟨env.mt, x.name, .named env.kwMeta⟩ : Edge) ∈ es ↔ x.usesMeta = true) ∧
    ((⟨env.rs, x.name, .named env.kwRandomState⟩ : Edge) ∈ es ↔ x.stochastic = true) ∧
    (∀ e ∈ es, e.dst = env.twin x.name → e.src ≠ env.bs ∧ e.src ≠ env.mt ∧ e.src ≠ env.rs) :=
  instruction_edges_exact' env s hwf x hx

end ElfiVerif.Compile
