import ElfiVerif.Proofs.Engine

/-!
# C04 — sampler results do not depend on worker scheduling or parallelism

Property theorems about `Model/Engine.lean`.  A schedule is ANY list of `submit` / `consume`
actions the engine accepts: this covers every answer sequence to `is_ready`, every completion order
of outstanding tasks (results are only ever taken from the oldest outstanding batch), every
submission policy `_allow_submit` may implement, and every `max_parallel_batches ≥ 1`.
-/
namespace ElfiVerif.Engine

variable {γ τ : Type}

/-- **Bookkeeping invariants at every point of every schedule**: never more than
`max_parallel_batches` outstanding; the outstanding indices are contiguous and continue the
consumed ones (so `cancel_pending` never raises 'Batches are not in order'); batches are consumed
in index order 0,1,2,… each exactly once. -/
theorem run_invariants (S : Sampler γ τ) (mpb : Nat) (c : γ) (sched : List Act) (e : Eng γ τ)
    (h : Eng.run S mpb (Eng.init c) sched = some e) :
    e.pending.length ≤ mpb ∧
    e.pending.map (·.1) = List.range' e.consumed.length e.pending.length ∧
    e.next = e.consumed.length + e.pending.length ∧
    e.consumed = List.range e.consumed.length :=
  run_invariants' S mpb c sched e h

/-- **Schedule independence.**  Whatever the schedule and `max_parallel_batches`, a finished
inference has consumed exactly the batches of the sequential run and ends in the same sampler
state (hence returns the same samples, thresholds and simulation counts). -/
theorem schedule_independent (S : Sampler γ τ) (hS : RoundStable S) (mpb : Nat) (c : γ)
    (sched : List Act) (e : Eng γ τ) (h : infer S mpb c sched = some e) :
    ∃ fuel, seqRun S fuel c 0 = some (e.core, e.consumed.length) :=
  schedule_independent' S hS mpb c sched e h

/-- two finished runs under ANY two schedules and limits agree -/
theorem schedule_independent_pair (S : Sampler γ τ) (hS : RoundStable S) (m₁ m₂ : Nat) (c : γ)
    (s₁ s₂ : List Act) (e₁ e₂ : Eng γ τ)
    (h₁ : infer S m₁ c s₁ = some e₁) (h₂ : infer S m₂ c s₂ = some e₂) :
    e₁.core = e₂.core ∧ e₁.consumed = e₂.consumed :=
  schedule_independent_pair' S hS m₁ m₂ c s₁ s₂ e₁ e₂ h₁ h₂

/-- **When inference returns no submitted task is left in the client**, and the engine's own event
trace passes the trace checker. -/
theorem no_task_left (S : Sampler γ τ) (mpb : Nat) (c : γ) (sched : List Act) (e : Eng γ τ)
    (h : infer S mpb c sched = some e) :
    e.pending = [] ∧ liveTasks e.trace = [] ∧ checkTrace mpb e.trace [] 0 [] = some e.consumed :=
  no_task_left' S mpb c sched e h

/-- **The trace checker (run on the REAL client's event log) is sound**: an accepted trace consumed
the indices 0,1,2,… in order, each once, leaves nothing in the client, and every fetched result
belongs to a task that was submitted and not cancelled in between (a `got i` always takes the
oldest outstanding task; cancelled tasks leave the outstanding list). -/
theorem checkTrace_sound (mpb : Nat) (tr : List Ev) (cons : List Nat)
    (h : checkTrace mpb tr [] 0 [] = some cons) :
    cons = List.range cons.length ∧ liveTasks tr = [] ∧
    (tr.filterMap (fun ev => match ev with | .got i => some i | _ => none)) = cons :=
  checkTrace_sound' mpb tr cons h

/-- outstanding tasks never exceed the limit at any prefix of an accepted trace -/
theorem checkTrace_bounded (mpb : Nat) (tr : List Ev) (cons : List Nat)
    (h : checkTrace mpb tr [] 0 [] = some cons) (k : Nat) :
    (liveTasks (tr.take k)).length ≤ mpb :=
  checkTrace_bounded' mpb tr cons h k

open ElfiVerif.Rejection in
/-- the engine-level rejection sampler is round-stable (it has a single round) -/
theorem rejSampler_stable {κ : Type} [LE κ] [DecidableLE κ] (sort : List (Slot κ) → List (Slot κ))
    (est : Nat → Nat → Nat → Nat → Nat) (c : Cfg κ) (batch : Nat → List (Slot κ)) :
    RoundStable (rejSampler sort est c batch) :=
  rejSampler_stable' sort est c batch

open ElfiVerif.Rejection in
/-- **The sequential rejection model of C01 is the engine's sequential run**: the objective
counter of `Rejection.run` (which starts at `max_parallel_batches` in threshold mode) stops the
loop exactly when `rejFin` — a function of buffer and consumed count only — holds.  Hence the
rejection result does not depend on `max_parallel_batches` either. -/
theorem rejection_run_is_seqRun {κ : Type} [LE κ] [DecidableLE κ] (sort : List (Slot κ) → List (Slot κ))
    (est : Nat → Nat → Nat → Nat → Nat) (top : κ) (c : Cfg κ) (batch : Nat → List (Slot κ)) (fuel : Nat)
    (st : St κ) (hobj : 0 < initObj c) (hbud : c.thr = none → ∃ s, c.nSim = some s ∧ 0 < s)
    (hrun : Rejection.run sort est c batch fuel (initSt top c) = some st) :
    seqRun (rejSampler sort est c batch) fuel ⟨initBuf top c.n c.b, 0⟩ 0 =
      some (⟨st.buf, st.nBatches⟩, st.nBatches) :=
  rejection_run_is_seqRun' sort est top c batch fuel st hobj hbud hrun

/-- non-vacuity, with a round switch: a toy two-round sampler (state = (round, consumed in round);
a round ends after 2 batches; finished after 2 rounds; a batch is `100·round + index`) run under a
speculative schedule with 3 parallel batches: two tasks are cancelled at the round switch, indices
2 and 3 are re-submitted in the new round, and the result equals the sequential run. -/
theorem toy_rounds_example :
    let S : Sampler (Nat × Nat) Nat :=
      { fin := fun g => decide (2 ≤ g.1), compute := fun g i => 100 * g.1 + i,
        upd := fun g _ _ => if g.2 + 1 = 2 then (g.1 + 1, 0) else (g.1, g.2 + 1),
        reset := fun g _ _ => decide (g.2 + 1 = 2) }
    let sched := [Act.submit, .submit, .submit, .consume, .submit, .consume, .submit, .consume, .submit, .consume]
    RoundStable S ∧
    (infer S 3 (0, 0) sched).map (fun e => (e.core, e.consumed, e.trace)) =
      some ((2, 0), [0, 1, 2, 3],
        [.submitted 0, .submitted 1, .submitted 2, .got 0, .submitted 3, .got 1, .removed 3, .removed 2,
         .submitted 2, .got 2, .submitted 3, .got 3]) ∧
    seqRun S 10 (0, 0) 0 = some ((2, 0), 4) :=
  toy_rounds_example'

end ElfiVerif.Engine
