import ElfiVerif.Proofs.Exec
import ElfiVerif.Proofs.Pool

/-!
# C05 — output pools are transparent: reuse never changes results or re-simulates

Property theorems about `Model/Exec.lean`: any graph, any execution order, any semantics of the
operations, any set of stored nodes of the stated form.
-/
namespace ElfiVerif.Exec

variable {Val Gen : Type}

/-- **Pool transparency.**  Let `order` be the pool-free execution order of a batch and `env₀` the
values it computes.  With a pool, fewer nodes run (`order'` is a sub-order); if every stored value
is the value the pool-free computation yields, every node that still runs has its parents available,
and the stochastic nodes that still run are a PREFIX of the pool-free stochastic order (true of the
stated forms: the simulator and/or anything computed from it, optionally with ALL parameters), then
every value computed with the pool equals the pool-free value. -/
theorem pool_transparent (S : Sem Val Gen) (nodes : Nat → Option ENode) (stored : Nat → Option Val)
    (order order' : List Nat) (g gEnd : Gen) (env₀ : List (Nat × Val))
    (hfresh : runOrder S nodes (fun _ => none) order [] g = some (env₀, gEnd))
    (hnodup : order.Nodup) (hsub : order'.Sublist order)
    (hstored : ∀ n v, stored n = some v → lookup env₀ n = some v)
    (hclosed : ∀ n ∈ order', stored n = none → ∀ x, nodes n = some x → ∀ p ∈ x.parents, p ∈ order')
    (hprefix : ∃ k, order'.filter (fun n => isSto nodes n && (stored n).isNone) =
        (order.filter (isSto nodes)).take k) :
    ∃ env' g', runOrder S nodes stored order' [] g = some (env', g') ∧
      ∀ n ∈ order', lookup env' n = lookup env₀ n :=
  pool_transparent' S nodes stored order order' g gEnd env₀ hfresh hnodup hsub hstored hclosed hprefix

/-- **A stored node's operation is never invoked**: the run does not depend on what the operations
of stored nodes would compute. -/
theorem stored_never_runs (S S' : Sem Val Gen) (nodes : Nat → Option ENode) (stored : Nat → Option Val)
    (hdet : ∀ n, stored n = none → S.det n = S'.det n) (hsto : ∀ n, stored n = none → S.sto n = S'.sto n)
    (l : List Nat) (env : List (Nat × Val)) (g : Gen) :
    runOrder S nodes stored l env g = runOrder S' nodes stored l env g :=
  stored_never_runs' S S' nodes stored hdet hsto l env g

/-- **A pool refuses a batch_size or seed that differs from the one it was created with**, and
hands its own to a context that gives none. -/
theorem context_mismatch_rejected (pc : PoolCtx) (b sd : Nat) (seed batchSize : Option Nat) (d : Nat) :
    (b ≠ pc.batchSize → makeContext (some b) seed (some (some pc)) d = .error .valueError) ∧
    (sd ≠ pc.seed → makeContext batchSize (some sd) (some (some pc)) d = .error .valueError) ∧
    makeContext none none (some (some pc)) d = .ok (pc.batchSize, pc.seed, some pc) ∧
    makeContext (some pc.batchSize) (some pc.seed) (some (some pc)) d = .ok (pc.batchSize, pc.seed, some pc) :=
  context_mismatch_rejected' pc b sd seed batchSize d

/-- **What a store holds for a batch never changes once written** (first write wins), and a new
batch index is recorded with the given value. -/
theorem add_batch_keeps (store : List (Nat × Val)) (idx i : Nat) (v : Val) :
    (lookup store i).isSome = true → lookup (addBatch store idx v) i = lookup store i :=
  add_batch_keeps' store idx i v

theorem add_batch_records (store : List (Nat × Val)) (idx : Nat) (v : Val)
    (h : lookup store idx = none) : lookup (addBatch store idx v) idx = some v :=
  add_batch_records' store idx v h

end ElfiVerif.Exec

/-! ### the pool object and its directory (`Model/Pool.lean`): any stores, any batches, any history of saves -/
namespace ElfiVerif.Pool

variable {Val : Type}

/-- **Save / open round trip**: whatever the directory held before (files of stores removed earlier, an older pool
pickle), the pool opened after `save()` is exactly the saved pool: the same stores in the same order with the same
batches, the same context. -/
theorem save_open_roundtrip (p : Pool Val) (d d' : Dir Val) (hn : (p.stores.map (·.1)).Nodup)
    (hs : save p d = .ok d') : openDir d' = some p :=
  save_open_roundtrip' p d d' hn hs

/-- **A removed store does not come back**: save, remove a store (its file stays on disk), save again, open - the
opened pool is the live pool, without that store, although the file is still there. -/
theorem removed_store_stays_removed (p p' : Pool Val) (d d₁ d₂ : Dir Val) (node : String)
    (hn : (p.stores.map (·.1)).Nodup) (h₁ : save p d = .ok d₁) (hr : removeStore p node = .ok p')
    (h₂ : save p' d₁ = .ok d₂) :
    openDir d₂ = some p' ∧ getStore p' node = none ∧ (∃ s, (node, s) ∈ d₂.files) :=
  removed_store_stays_removed' p p' d d₁ d₂ node hn h₁ hr h₂

/-- **What `add_batch` does to one store**: the set of stores is unchanged; every other batch index keeps its value;
the given index keeps the value it already had (first write wins) and otherwise gets the batch's value for that
node (nothing, if the batch has none). -/
theorem add_batch_records (p : Pool Val) (batch : List (String × Val)) (idx : Nat)
    (hn : (p.stores.map (·.1)).Nodup) (hb : (batch.map (·.1)).Nodup) (node : String) (st : Option (StoreC Val))
    (hst : getStore p node = some st) :
    (addBatch p batch idx).stores.map (·.1) = p.stores.map (·.1) ∧
    ∃ s', getStore (addBatch p batch idx) node = some s' ∧
      (∀ j, j ≠ idx → lookupI (s'.getD []) j = lookupI (st.getD []) j) ∧
      lookupI (s'.getD []) idx =
        (match lookupI (st.getD []) idx with
         | some v₀ => some v₀
         | none => batchVal batch node) :=
  add_batch_records' p batch idx hn hb node st hst

/-- **A pool ends up holding exactly the consumed batches**: after a run that hands batches `0 … k-1` (each with a
value for every stored node, plus anything else) to a fresh pool, every store holds exactly the indices `0 … k-1`,
in order, each with the value of its batch. -/
theorem fill_holds_exactly (p : Pool Val) (batches : List (List (String × Val)))
    (hn : (p.stores.map (·.1)).Nodup) (hfresh : ∀ e ∈ p.stores, e.2.getD [] = [])
    (hb : ∀ b ∈ batches, (b.map (·.1)).Nodup ∧ ∀ e ∈ p.stores, (batchVal b e.1).isSome) :
    let q := fillFrom p 0 batches
    q.stores.map (·.1) = p.stores.map (·.1) ∧
    ∀ e ∈ q.stores, (e.2.getD []).map (·.1) = List.range batches.length ∧
      ∀ i (hi : i < batches.length), lookupI (e.2.getD []) i = batchVal (batches[i]'hi) e.1 :=
  fill_holds_exactly' p batches hn hfresh hb

/-- **Reuse never changes the pool**: running again over batches the pool already holds - whatever values the rerun
would hand over - leaves the pool exactly as it was. -/
theorem refill_changes_nothing (p : Pool Val) (batches batches' : List (List (String × Val)))
    (hn : (p.stores.map (·.1)).Nodup) (hfresh : ∀ e ∈ p.stores, e.2.getD [] = [])
    (hb : ∀ b ∈ batches, (b.map (·.1)).Nodup ∧ ∀ e ∈ p.stores, (batchVal b e.1).isSome)
    (hlen : batches'.length ≤ batches.length) (hne : batches ≠ []) :
    fillFrom (fillFrom p 0 batches) 0 batches' = fillFrom p 0 batches :=
  refill_changes_nothing' p batches batches' hn hfresh hb hlen hne

/-- `len(pool)` is the number of consumed batches and `i in pool` holds exactly for those -/
theorem len_contains_after_fill (p : Pool Val) (batches : List (List (String × Val)))
    (hn : (p.stores.map (·.1)).Nodup) (hfresh : ∀ e ∈ p.stores, e.2.getD [] = []) (hne : p.stores ≠ [])
    (hb : ∀ b ∈ batches, (b.map (·.1)).Nodup ∧ ∀ e ∈ p.stores, (batchVal b e.1).isSome) (i : Nat) :
    len (fillFrom p 0 batches) = batches.length ∧ (contains (fillFrom p 0 batches) i = decide (i < batches.length)) :=
  len_contains_after_fill' p batches hn hfresh hne hb i

end ElfiVerif.Pool
