import ElfiVerif.Proofs.Exec

/-!
# C05 — output pools are transparent: reuse never changes results or re-simulates

Property theorems about `Model/Exec.lean`: any graph, any execution order, any semantics of the
operations, any set of stored nodes of the stated form.
-/
namespace ElfiVerif.Exec

variable {Val Gen : Type}

/-- **Pool transparency.**  Let `order` be the pool-free execution order of a batch and `env₀` the
values it computes.  With a pool, fewer nodes run (`order'` is a sub-order); if every stored value
is the value the pool-free computation yields, every node that still runs has its parents available,
and the stochastic nodes that still run are a PREFIX of the pool-free stochastic order (true of the
stated forms: the simulator and/or anything computed from it, optionally with ALL parameters), then
every value computed with the pool equals the pool-free value. -/
theorem pool_transparent (S : Sem Val Gen) (nodes : Nat → Option ENode) (stored : Nat → Option Val)
    (order order' : List Nat) (g gEnd : Gen) (env₀ : List (Nat × Val))
    (hfresh : runOrder S nodes (fun _ => none) order [] g = some (env₀, gEnd))
    (hnodup : order.Nodup) (hsub : order'.Sublist order)
    (hstored : ∀ n v, stored n = some v → lookup env₀ n = some v)
    (hclosed : ∀ n ∈ order', stored n = none → ∀ x, nodes n = some x → ∀ p ∈ x.parents, p ∈ order')
    (hprefix : ∃ k, order'.filter (fun n => isSto nodes n && (stored n).isNone) =
        (order.filter (isSto nodes)).take k) :
    ∃ env' g', runOrder S nodes stored order' [] g = some (env', g') ∧
      ∀ n ∈ order', lookup env' n = lookup env₀ n :=
  pool_transparent' S nodes stored order order' g gEnd env₀ hfresh hnodup hsub hstored hclosed hprefix

/-- **A stored node's operation is never invoked**: the run does not depend on what the operations
of stored nodes would compute. -/
theorem stored_never_runs (S S' : Sem Val Gen) (nodes : Nat → Option ENode) (stored : Nat → Option Val)
    (hdet : ∀ n, stored n = none → S.det n = S'.det n) (hsto : ∀ n, stored n = none → S.sto n = S'.sto n)
    (l : List Nat) (env : List (Nat × Val)) (g : Gen) :
    runOrder S nodes stored l env g = runOrder S' nodes stored l env g :=
  stored_never_runs' S S' nodes stored hdet hsto l env g

/-- **A pool refuses a batch_size or seed that differs from the one it was created with**, and
hands its own to a context that gives none. -/
theorem context_mismatch_rejected (pc : PoolCtx) (b sd : Nat) (seed batchSize : Option Nat) (d : Nat) :
    (b ≠ pc.batchSize → makeContext (some b) seed (some (some pc)) d = .error .valueError) ∧
    (sd ≠ pc.seed → makeContext batchSize (some sd) (some (some pc)) d = .error .valueError) ∧
    makeContext none none (some (some pc)) d = .ok (pc.batchSize, pc.seed, some pc) ∧
    makeContext (some pc.batchSize) (some pc.seed) (some (some pc)) d = .ok (pc.batchSize, pc.seed, some pc) :=
  context_mismatch_rejected' pc b sd seed batchSize d

/-- **What a store holds for a batch never changes once written** (first write wins), and a new
batch index is recorded with the given value. -/
theorem add_batch_keeps (store : List (Nat × Val)) (idx i : Nat) (v : Val) :
    (lookup store i).isSome = true → lookup (addBatch store idx v) i = lookup store i :=
  add_batch_keeps' store idx i v

theorem add_batch_records (store : List (Nat × Val)) (idx : Nat) (v : Val)
    (h : lookup store idx = none) : lookup (addBatch store idx v) idx = some v :=
  add_batch_records' store idx v h

end ElfiVerif.Exec
