import ElfiVerif.Proofs.Npy
import ElfiVerif.Proofs.BufIO
import ElfiVerif.Proofs.NpyRebatch

/-!
# C06 — on-disk array stores keep exactly what was written, across reopen and crash

Property theorems about `Model/Npy.lean`: every history of `set / del / clear / flush / close /
reopen / reopenN / pickle` over an `NpyStore`, of any length, any batch size, any row contents; every
kill point = every prefix of the low-level file steps the history issues.
`old := false` is the step order of the code as it is now (after fixes 2aa5c2e and 8541f7b).
-/
namespace ElfiVerif.Npy

/-- **Refinement to a plain list of batches.**  Along any history that starts from a fresh store
(batch size `b > 0`, batches of exactly `b` rows, no operation other than close/reopen/pickle on a
closed store), what the store reports (`len`, its batches read back) is the in-memory list
semantics `specStep`, an operation is rejected exactly when the list semantics rejects it, and the
on-disk data always holds the logical rows. -/
theorem refines_list (b : Nat) (hb : 0 < b) (ops : List Op) (hops : OpsOK b ops) :
    Refines b ops :=
  refines_list' b hb ops hops

/-- **After flush / close / reopen / pickle the file is a standard .npy file that numpy loads to the
same content**: exactly the rows of the in-memory sequence (available batches, followed by the
hidden ones if the store was reopened with an explicit smaller `n_batches`). -/
theorem flush_makes_standard (b : Nat) (hb : 0 < b) (ops : List Op) (op : Op)
    (hops : OpsOK b (ops ++ [op])) (hfl : op.flushLike = true)
    (hok : ((storeAfter b ops).step false (diskAfter b ops) op).1 = none)
    (hinit : (storeAfter b (ops ++ [op])).arr.initialized = true) :
    npLoad (diskAfter b (ops ++ [op])) = some (specAfter b (ops ++ [op])).rows :=
  flush_makes_standard' b hb ops op hops hfl hok hinit

/-- **Reopen and pickle round trips**: a successful `reopen` exposes every batch of the in-memory
sequence (nothing lost, nothing invented), `pickle` leaves it as it is. -/
theorem reopen_roundtrip (sp : Spec) :
    specStep sp true .reopen = .ok { avail := sp.all, hidden := [] } ∧
    specStep sp true .pickle = .ok sp ∧
    (sp.hidden = [] → specStep sp true .reopen = .ok sp) :=
  reopen_roundtrip' sp

/-- **Crash safety.**  Take any history `ops₁` that ends with a successful flush-like operation on
an initialised store, continue with any history `ops₂`, and kill after ANY number `k` of the
low-level file steps of `ops₂`: the file still loads, and it loads to the rows of the in-memory
sequence as it was after `ops₁ ++ ops₂.take j` for some `j` — a logical content at an instant
between that flush and the kill (never a torn or never-existing content).  `j` is at most the
number of operations begun before the kill. -/
theorem crash_safe (b : Nat) (hb : 0 < b) (ops₁ ops₂ : List Op) (hops : OpsOK b (ops₁ ++ ops₂))
    (hflushed : FlushedAfter b ops₁) (k : Nat) :
    ∃ j, j ≤ ops₂.length ∧ j ≤ opsBegun b ops₁ ops₂ k ∧
      npLoad ((diskAfter b ops₁).applyAll ((stepsOf b ops₁ ops₂).take k)) =
        some (specAfter b (ops₁ ++ ops₂.take j)).rows :=
  crash_safe' b hb ops₁ ops₂ hops hflushed k

/-- The step order BEFORE fix 2aa5c2e (file truncated before the header is rewritten) is not crash
safe: `set 0; set 1; flush; del 1` killed after the truncate leaves a file numpy cannot load. -/
theorem truncate_before_header_counterexample :
    let ops₁ : List Op := [.set 0 [1, 1], .set 1 [2, 2], .flush]
    let r₁ := runOps true { b := 2 } Disk.empty ops₁
    let stepRes := r₁.2.1.step true r₁.2.2 (.del 1)
    npLoad (r₁.2.2.applyAll (stepRes.2.1.take 1)) = none :=
  truncate_before_header_counterexample'

/-- The code BEFORE fix 8541f7b (no header flush before an in-place overwrite): `set 0; set 1;
flush; set 2 (append, header deferred); set 0 (overwrite)` killed after the overwrite loads as
`[9,9,2,2]` — a content the store never had (it went `[1,1,2,2] → [1,1,2,2,3,3] → [9,9,2,2,3,3]`). -/
theorem overwrite_overtakes_append_counterexample :
    let ops₁ : List Op := [.set 0 [1, 1], .set 1 [2, 2], .flush]
    let ops₂ : List Op := [.set 2 [3, 3], .set 0 [9, 9]]
    let r := runOps true { b := 2 } Disk.empty (ops₁ ++ ops₂)
    npLoad r.2.2 = some [9, 9, 2, 2] ∧
      [9, 9, 2, 2] ∉ [[1, 1, 2, 2], [1, 1, 2, 2, 3, 3], [9, 9, 2, 2, 3, 3]] :=
  overwrite_overtakes_append_counterexample'

/-- non-vacuity: the history of the second counter-example satisfies the hypotheses of
`crash_safe` for the fixed code, and there the kill after the overwrite loads `[9,9,2,2,3,3]`. -/
theorem crash_safe_example :
    let ops₁ : List Op := [.set 0 [1, 1], .set 1 [2, 2], .flush]
    let ops₂ : List Op := [.set 2 [3, 3], .set 0 [9, 9]]
    OpsOK 2 (ops₁ ++ ops₂) ∧ FlushedAfter 2 ops₁ ∧
      npLoad (runOps false { b := 2 } Disk.empty (ops₁ ++ ops₂)).2.2 = some [9, 9, 2, 2, 3, 3] :=
  crash_safe_example'

end ElfiVerif.Npy

/-! ### the buffering layer: every kill point IS a step prefix

`crash_safe` quantifies over prefixes of the file steps in program order.  The theorems below say when
that is what a killed process leaves behind: the store talks to the file through Python's buffered
file object (`Model/BufIO.lean`); under the discipline "a write that bypasses the buffer happens only
while no buffered write is pending" the file at ANY moment holds the effect of a prefix of the steps.
The discipline is a checked hypothesis: it is evaluated (with this very definition, `C06.io`) on the
event stream of the real store on every run. -/
namespace ElfiVerif.Npy.BufIO
open ElfiVerif.Npy ElfiVerif.BufIO

/-- **A kill at any moment leaves a step prefix.**  Run any disciplined event stream from an empty
buffer and stop after `m` events (the buffer content is lost): the file is the starting file with the
first `k` steps, in program order, applied - for some `k` not beyond the steps issued so far. -/
theorem buffered_kill_is_prefix (d : Disk) (evs : List IoEv) (hd : disciplined false evs = true) (m : Nat) :
    ∃ k, k ≤ (stepsOfEvs (evs.take m)).length ∧
      (Io.run ⟨d, []⟩ (evs.take m)).disk = d.applyAll ((stepsOfEvs evs).take k) :=
  buffered_kill_is_prefix' d evs hd m

/-- after a flush nothing is pending: the file holds every step issued so far -/
theorem flush_reaches_disk (d : Disk) (evs : List IoEv) (hd : disciplined false evs = true) :
    Io.run ⟨d, []⟩ (evs ++ [.flush]) = ⟨d.applyAll (stepsOfEvs evs), []⟩ :=
  flush_reaches_disk' d evs hd

/-- **Crash safety at the level of buffered IO**: if the store's file steps for `ops₂` reach the file
through ANY disciplined event stream (whatever seeks, flushes and spontaneous spills it contains), a
kill after any number `m` of IO events leaves a file that loads to the in-memory sequence as it was
after `ops₁ ++ ops₂.take j` for some `j`. -/
theorem crash_safe_buffered (b : Nat) (hb : 0 < b) (ops₁ ops₂ : List Op) (hops : OpsOK b (ops₁ ++ ops₂))
    (hflushed : FlushedAfter b ops₁) (evs : List IoEv) (hsteps : stepsOfEvs evs = stepsOf b ops₁ ops₂)
    (hd : disciplined false evs = true) (m : Nat) :
    ∃ j, j ≤ ops₂.length ∧
      npLoad (Io.run ⟨diskAfter b ops₁, []⟩ (evs.take m)).disk = some (specAfter b (ops₁ ++ ops₂.take j)).rows :=
  crash_safe_buffered' b hb ops₁ ops₂ hops hflushed evs hsteps hd m

/-- The discipline matters: rewriting the header with a positional write on the descriptor
(`os.pwrite`) while the appended rows are still buffered puts the header on disk BEFORE the rows; a
kill right there leaves a file numpy cannot load (header claims 6 rows, 4 present).  The same steps
through the buffer (`seek` before the header write, as `store.py` does) load at every kill point. -/
theorem bypass_counterexample :
    let d : Disk := ⟨some 4, [1, 1, 2, 2]⟩
    let bad : List IoEv := [.write (.data 4 [3, 3]), .direct (.hdr 6), .flush]
    let good : List IoEv := [.write (.data 4 [3, 3]), .seek, .write (.hdr 6), .flush]
    disciplined false bad = false ∧ npLoad (Io.run ⟨d, []⟩ (bad.take 2)).disk = none ∧
    disciplined false good = true ∧
    (List.range 5).map (fun m => npLoad (Io.run ⟨d, []⟩ (good.take m)).disk) =
      [some [1, 1, 2, 2], some [1, 1, 2, 2], some [1, 1, 2, 2], some [1, 1, 2, 2], some [1, 1, 2, 2, 3, 3]] :=
  bypass_counterexample'

end ElfiVerif.Npy.BufIO

namespace ElfiVerif.Npy

/-! ### Re-batching: a file reopened with another batch size (`Model/NpyRebatch.lean`)

`d` is any file as a flush or close leaves it: a header claiming `rows.length` rows and exactly those rows
present.  `b` is ANY positive batch size - it need not divide the row count. -/

/-- **What a re-batched store exposes**: the complete batches of `b` consecutive rows, in file order, and nothing
else; together with the trailing rows they are exactly the file. -/
theorem rebatch_view (rows : List Row) (b : Nat) (hb : 0 < b) :
    ∃ s, Store.openB ⟨some rows.length, rows⟩ b = .ok s ∧ s.nBatches = rows.length / b ∧
      s.content ⟨some rows.length, rows⟩ = chunks b rows ∧
      (∀ x ∈ chunks b rows, x.length = b) ∧
      (chunks b rows).flatten ++ tailRows b rows = rows ∧ (tailRows b rows).length = rows.length % b :=
  rebatch_view' rows b hb

/-- **A batch size that divides the row count gives an ordinary store**: every further history (any operations
of `Model/Npy.lean`, reopen / pickle / crash points included) has the list semantics started from those batches -
the refinement, standard-file and crash theorems above apply from this state (`Inv` is their invariant). -/
theorem rebatch_aligned (rows : List Row) (b : Nat) (hb : 0 < b) (hdiv : b ∣ rows.length) (s : Store)
    (hs : Store.openB ⟨some rows.length, rows⟩ b = .ok s) :
    Inv b s ⟨some rows.length, rows⟩ { avail := chunks b rows } :=
  rebatch_aligned' rows b hb hdiv s hs

/-- **With trailing rows**: along any history of whole-batch set / del / clear / flush operations the store
rejects exactly the operations the reference semantics `specRunT` rejects (in particular every append while the
trailing rows are there) and exposes exactly its batches after every operation. -/
theorem rebatch_refines (rows : List Row) (b : Nat) (hb : 0 < b) (s : Store)
    (hs : Store.openB ⟨some rows.length, rows⟩ b = .ok s) (ops : List Op) (hops : ∀ op ∈ ops, opT b op = true) :
    reportRunB s ⟨some rows.length, rows⟩ ops = specRunT (chunks b rows) (decide (rows.length % b ≠ 0)) ops :=
  rebatch_refines' rows b hb s hs ops hops

/-- **The trailing rows are never altered by an overwrite**, and an append over them is refused without a single
file step. -/
theorem rebatch_tail_untouched (rows : List Row) (b : Nat) (hb : 0 < b) (htail : rows.length % b ≠ 0) (s : Store)
    (hs : Store.openB ⟨some rows.length, rows⟩ b = .ok s) (i : Nat) (batch : List Row) (hlen : batch.length = b) :
    let d : Disk := ⟨some rows.length, rows⟩
    let r := s.step false d (.set i batch)
    (rows.length / b ≤ i → r = (some .indexError, [], s)) ∧
    (i < rows.length / b → r.1 = none ∧
      npLoad (d.applyAll r.2.1) = some (((chunks b rows).set i batch).flatten ++ tailRows b rows)) :=
  rebatch_tail_untouched' rows b hb htail s hs i batch hlen

/-- non-vacuity / the C06g shape: 7 rows read with batch size 3 -/
example : chunks 3 [1, 2, 3, 4, 5, 6, 7] = [[1, 2, 3], [4, 5, 6]] ∧ tailRows 3 [1, 2, 3, 4, 5, 6, 7] = [7] := by decide

end ElfiVerif.Npy
