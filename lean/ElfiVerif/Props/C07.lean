import ElfiVerif.Proofs.Smc
import ElfiVerif.Proofs.SmcRound

/-!
# C07 — SMC-ABC populations: which population every weight / proposal / threshold refers to

Property theorems about `Model/Smc.lean`: any number of rounds per call and any number of
`sample()` calls on one sampler (continued sampling).
-/
namespace ElfiVerif.Smc

/-- **One population per round, in order**: the populations are exactly the accepted samples of all
rounds of all calls, in order. -/
theorem pops_are_rounds (calls : List (Bool × List (Nat × Nat))) (h : CallsOK calls) :
    (history calls).pops.map (fun p => (p.sample, p.nBatches)) = (calls.map (·.2)).flatten :=
  pops_are_rounds' calls h

/-- **First-population weights are 1; every later population is weighted against (and was proposed
from) the population IMMEDIATELY before it** — also across `sample()` calls on the same sampler. -/
theorem refs_are_previous (calls : List (Bool × List (Nat × Nat))) (h : CallsOK calls) (r : Nat)
    (hr : r < (history calls).pops.length) :
    ((history calls).pops[r]).ref = if r = 0 then none else some (r - 1) :=
  refs_are_previous' calls h r hr

/-- **The threshold in force is the user's entry, or the requested quantile of the population
immediately before** (the very first round of a quantile run has a simulation budget instead). -/
theorem thresholds_from_previous (calls : List (Bool × List (Nat × Nat))) (h : CallsOK calls) (r : Nat)
    (hr : r < (history calls).pops.length) :
    match ((history calls).pops[r]).thr with
    | .user _ => True
    | .quantileOf p _ => 0 < r ∧ p = r - 1
    | .budget _ => r = 0 :=
  thresholds_from_previous' calls h r hr

/-- **n_sim is the total over all rounds**: the batch counter is the sum of the batches consumed by
every round of every call (times batch_size = simulations). -/
theorem nsim_total (calls : List (Bool × List (Nat × Nat))) (h : CallsOK calls) :
    (history calls).nBatches = (((calls.map (·.2)).flatten).map (·.2)).sum :=
  nsim_total' calls h

/-! ### the numbers: importance weights (any ordered field, any component density) -/
section weights
variable {F Θ : Type} [Field F] [LinearOrder F] [IsStrictOrderedRing F]

/-- the mixture weights are normalised: with a constant component density `1` the mixture density is `1` -/
theorem gm_density_normalised (means : List Θ) (w : List F) (x : Θ) (hlen : w.length = means.length)
    (hsum : sumF w ≠ 0) : gmDensity (fun _ _ => (1 : F)) means w x = 1 :=
  gm_density_normalised' means w x hlen hsum

/-- **the new weights do not depend on the scale of the previous population's weights** -/
theorem smc_weight_scale_invariant (prior : Θ → F) (kernel : Θ → Θ → F) (means : List Θ) (w : List F)
    (x : Θ) (c : F) (hc : c ≠ 0) :
    smcWeight prior kernel means (w.map (c * ·)) x = smcWeight prior kernel means w x :=
  smc_weight_scale_invariant' prior kernel means w x c hc

/-- **every accepted particle inside the prior support gets a strictly positive weight**: non-negative
previous weights with positive sum, positive component densities -/
theorem smc_weight_pos (prior : Θ → F) (kernel : Θ → Θ → F) (means : List Θ) (w : List F) (x : Θ)
    (hlen : w.length = means.length) (hw : ∀ v ∈ w, 0 ≤ v) (hsum : 0 < sumF w)
    (hk : ∀ m ∈ means, 0 < kernel x m) (hp : 0 < prior x) :
    0 < smcWeight prior kernel means w x :=
  smc_weight_pos' prior kernel means w x hlen hw hsum hk hp

/-- a particle outside the prior support has weight zero -/
theorem smc_weight_zero_outside (prior : Θ → F) (kernel : Θ → Θ → F) (means : List Θ) (w : List F)
    (x : Θ) (hp : prior x = 0) : smcWeight prior kernel means w x = 0 :=
  smc_weight_zero_outside' prior kernel means w x hp

end weights

end ElfiVerif.Smc

/-! ### every round is a rejection run with the threshold in force (`SMC._rejection`): the population clauses of C07 from
the rejection theorems of C01 (`Model/Rejection.lean`); any linear order of discrepancies, any sorting permutation,
any batch size, population size, number of batches and number of rounds -/
namespace ElfiVerif.SmcRound
open ElfiVerif.Rejection

variable {κ : Type} [LinearOrder κ] [OrderTop κ]

/-- **A population has exactly `n_samples` particles, every one a simulated draw of its own round with discrepancy
`≤` the threshold in force, no draw twice; the threshold it reports is not above the one in force; the round's
simulations are `batch_size ×` its batches.**  `hest` is the margin property of the batch estimate
(`Rejection.estExact_margin`). -/
theorem round_population (sort : List (Slot κ) → List (Slot κ)) (hs : SortOK sort)
    (est : Nat → Nat → Nat → Nat → Nat)
    (hest : ∀ n b nAcc nb, 0 < b → 0 < nAcc → nAcc < n → nb < est n nAcc (nb * b) b)
    (r : Round κ) (t : κ) (h : r.OK sort est t) :
    let res := extract r.cfg r.st
    res.rows.length = r.cfg.n ∧
    (∀ s ∈ res.rows, s.key ≤ t ∧ s.origin.isSome = true ∧ s ∈ consumed r.batch r.st.nBatches) ∧
    (res.rows.map (·.origin)).Nodup ∧
    (∀ k, res.threshold = some k → k ≤ t) ∧
    res.nSim = r.cfg.b * r.st.nBatches :=
  round_population' sort hs est hest r t h

/-- **All populations of a run, and the total number of simulations**: every round's population has `n` particles
within that round's threshold, and the simulations of all rounds add up to `batch_size × (total batches)`
(the number `nsim_total` says the sampler reports). -/
theorem populations_total (sort : List (Slot κ) → List (Slot κ)) (hs : SortOK sort)
    (est : Nat → Nat → Nat → Nat → Nat)
    (hest : ∀ n b nAcc nb, 0 < b → 0 < nAcc → nAcc < n → nb < est n nAcc (nb * b) b)
    (rounds : List (Round κ × κ)) (h : ∀ rt ∈ rounds, rt.1.OK sort est rt.2) (b n : Nat)
    (hb : ∀ rt ∈ rounds, rt.1.cfg.b = b ∧ rt.1.cfg.n = n) :
    (∀ rt ∈ rounds, (extract rt.1.cfg rt.1.st).rows.length = n ∧
        ∀ s ∈ (extract rt.1.cfg rt.1.st).rows, s.key ≤ rt.2) ∧
    ((rounds.map (fun rt => (extract rt.1.cfg rt.1.st).nSim)).sum =
      b * (rounds.map (fun rt => rt.1.st.nBatches)).sum) :=
  populations_total' sort hs est hest rounds h b n hb

end ElfiVerif.SmcRound
