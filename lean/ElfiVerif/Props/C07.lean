import ElfiVerif.Proofs.Smc

/-!
# C07 — SMC-ABC populations: which population every weight / proposal / threshold refers to

Property theorems about `Model/Smc.lean`: any number of rounds per call and any number of
`sample()` calls on one sampler (continued sampling).
-/
namespace ElfiVerif.Smc

/-- **One population per round, in order**: the populations are exactly the accepted samples of all
rounds of all calls, in order. -/
theorem pops_are_rounds (calls : List (Bool × List (Nat × Nat))) (h : CallsOK calls) :
    (history calls).pops.map (fun p => (p.sample, p.nBatches)) = (calls.map (·.2)).flatten :=
  pops_are_rounds' calls h

/-- **First-population weights are 1; every later population is weighted against (and was proposed
from) the population IMMEDIATELY before it** — also across `sample()` calls on the same sampler. -/
theorem refs_are_previous (calls : List (Bool × List (Nat × Nat))) (h : CallsOK calls) (r : Nat)
    (hr : r < (history calls).pops.length) :
    ((history calls).pops[r]).ref = if r = 0 then none else some (r - 1) :=
  refs_are_previous' calls h r hr

/-- **The threshold in force is the user's entry, or the requested quantile of the population
immediately before** (the very first round of a quantile run has a simulation budget instead). -/
theorem thresholds_from_previous (calls : List (Bool × List (Nat × Nat))) (h : CallsOK calls) (r : Nat)
    (hr : r < (history calls).pops.length) :
    match ((history calls).pops[r]).thr with
    | .user _ => True
    | .quantileOf p _ => 0 < r ∧ p = r - 1
    | .budget _ => r = 0 :=
  thresholds_from_previous' calls h r hr

/-- **n_sim is the total over all rounds**: the batch counter is the sum of the batches consumed by
every round of every call (times batch_size = simulations). -/
theorem nsim_total (calls : List (Bool × List (Nat × Nat))) (h : CallsOK calls) :
    (history calls).nBatches = (((calls.map (·.2)).flatten).map (·.2)).sum :=
  nsim_total' calls h

end ElfiVerif.Smc
