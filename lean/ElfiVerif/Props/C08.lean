import ElfiVerif.Proofs.Prior

/-!
# C08 — the joint model prior equals the product of the conditional prior densities

Property theorems about `Model/Prior.lean`: any number of parameter nodes, any (hierarchical)
parent structure, any ordering of the requested parameters, any conditional densities.
-/
namespace ElfiVerif.Prior

variable {K : Type} [Field K] [LinearOrder K] [IsStrictOrderedRing K]

/-- **The joint prior is the product of the conditional densities**, each evaluated at the query
value of its parameter given the query values of its parameter parents and its constants. -/
theorem prior_is_product (pdf : Nat → K → List K → K) (requested : List (PNode K)) (x : List K) (dflt : K)
    (hne : requested ≠ []) :
    joint (· * ·) pdf requested x dflt =
      some (terms pdf requested (query (requested.map (·.name)) x dflt)).prod :=
  prior_is_product' pdf requested x dflt hne

/-- **The log density is the sum of the conditional log densities** -/
theorem log_is_sum (lpdf : Nat → K → List K → K) (requested : List (PNode K)) (x : List K) (dflt : K)
    (hne : requested ≠ []) :
    joint (· + ·) lpdf requested x dflt =
      some (terms lpdf requested (query (requested.map (·.name)) x dflt)).sum :=
  log_is_sum' lpdf requested x dflt hne

/-- … which is the logarithm of the product, for positive factors (over ℝ) -/
theorem log_of_product (l : List ℝ) (hpos : ∀ a ∈ l, 0 < a) : Real.log l.prod = (l.map Real.log).sum :=
  log_of_product' l hpos

/-- **Zero exactly where some conditional density is zero** (densities are non-negative) -/
theorem zero_iff_some_zero (l : List K) (hnn : ∀ a ∈ l, 0 ≤ a) : l.prod = 0 ↔ ∃ a ∈ l, a = 0 :=
  zero_iff_some_zero' l hnn

/-- **Any ordering of the requested parameters gives the same density at the same point**: permuting
`parameter_names` together with the query columns does not change the value (distinct names). -/
theorem prior_is_product_perm (pdf : Nat → K → List K → K) (requested : List (PNode K)) (x : List K) (dflt : K)
    (hlen : x.length = requested.length) (hnd : (requested.map (·.name)).Nodup)
    (σ : List (PNode K × K)) (hσ : σ.Perm (requested.zip x)) (hne : requested ≠ []) :
    joint (· * ·) pdf (σ.map (·.1)) (σ.map (·.2)) dflt = joint (· * ·) pdf requested x dflt :=
  prior_is_product_perm' pdf requested x dflt hlen hnd σ hσ hne

/-- the query value of the i-th requested parameter is the i-th column (distinct names) -/
theorem query_column (names : List Nat) (x : List K) (dflt : K) (hlen : x.length = names.length)
    (hnd : names.Nodup) (i : Nat) (hi : i < names.length) :
    query names x dflt (names[i]) = x[i]'(hlen ▸ hi) :=
  query_column' names x dflt hlen hnd i hi

/-- the code BEFORE fix 778f29f multiplied in the densities of unrequested parameters at sampled
values: requesting `[t₁]` in a model with a second parameter `t₂ ~ pdf₂` gave `pdf₁(x) · pdf₂(draw)`. -/
theorem subset_includes_unrequested :
    let pdf : Nat → Rat → List Rat → Rat := fun n v _ => if n = 1 then v else 1 / 4
    let t1 : PNode Rat := ⟨1, []⟩
    let t2 : PNode Rat := ⟨2, []⟩
    jointOld (· * ·) pdf [t1, t2] [t1] [3] (fun _ => 7) 0 = some (3 * (1 / 4)) ∧
    joint (· * ·) pdf [t1] [3] 0 = some 3 :=
  subset_includes_unrequested'

end ElfiVerif.Prior
