import ElfiVerif.Proofs.Mcmc
import ElfiVerif.Proofs.McmcDB

/-!
# C09 — MCMC kernels implement their algorithm and never leave the target's support

Property theorems about `Model/Mcmc.lean`: any state space, proposal map, log-target (with any
`inf` / `nan` pattern), comparison functions, draw streams, chain lengths, warm-up lengths, tree
depths — all unbounded / arbitrary.
-/
namespace ElfiVerif.Mcmc

variable {α ζ U T : Type}

/-- **The Metropolis chain is exactly the random-walk chain of its stream**: state `i+1` is the
proposal `prop xᵢ zᵢ` precisely when the uniform is not above the ratio and the proposed log-target
is neither `inf` nor `nan`; otherwise it is `xᵢ`; the cached log-target always belongs to the
current state; the uniform of every step is consumed whether or not it is needed. -/
theorem metropolis_chain (M : MTarget α ζ U T) (x0 : α) (draws : List (ζ × U)) :
    let ch := metroChain M x0 draws
    ch.length = draws.length + 1 ∧ ch[0]? = some (x0, M.lt x0) ∧
    ∀ i (hi : i < draws.length) (h₁ : i < ch.length) (h₂ : i + 1 < ch.length),
      let x := (ch[i]'h₁).1
      let x' := M.prop x (draws[i]'hi).1
      let acc := !(M.ratioLt (M.lt x') (M.lt x) (draws[i]'hi).2) && okT M (M.lt x')
      (ch[i]'h₁).2 = M.lt x ∧ (ch[i + 1]'h₂) = (if acc then (x', M.lt x') else (x, M.lt x)) :=
  metropolis_chain' M x0 draws

/-- **Requested number of states**, warm-up prefix removed (given enough draws, which the seed's
stream always provides) -/
theorem metropolis_length (M : MTarget α ζ U T) (n w : Nat) (x0 : α) (draws : List (ζ × U))
    (hd : n + w ≤ draws.length) (out : List α) (h : metropolis M n w x0 draws = .ok out) :
    out.length = n ∧
    out = (((metroChain M x0 (draws.take (n + w))).drop (1 + w)).map (·.1)) :=
  metropolis_length' M n w x0 draws hd out h

/-- **Never outside the support**: started from a point whose log-target is neither `inf` nor
`nan`, no state of the chain (hence no returned state) has a log-target that is. -/
theorem metropolis_support (M : MTarget α ζ U T) (x0 : α) (draws : List (ζ × U))
    (h0 : okT M (M.lt x0) = true) :
    ∀ st ∈ metroChain M x0 draws, okT M (M.lt st.1) = true ∧ st.2 = M.lt st.1 :=
  metropolis_support' M x0 draws h0

theorem metropolis_returns_support (M : MTarget α ζ U T) (n w : Nat) (x0 : α) (draws : List (ζ × U))
    (h0 : okT M (M.lt x0) = true) (out : List α) (h : metropolis M n w x0 draws = .ok out) :
    ∀ x ∈ out, okT M (M.lt x) = true :=
  metropolis_returns_support' M n w x0 draws h0 out h

/-- a start with log-target `inf` is rejected -/
theorem metropolis_bad_init (M : MTarget α ζ U T) (n w : Nat) (x0 : α) (draws : List (ζ × U))
    (h : M.isInf (M.lt x0) = true) : metropolis M n w x0 draws = .error .badInit :=
  metropolis_bad_init' M n w x0 draws h

variable {σ S : Type}

/-- **A sub-tree that reports acceptable leaves proposes one of them.**  By induction on the depth:
if `n_sub > 0` then the proposal `params1` satisfies the slice test (so its log-joint, hence its
log-target, is neither `-inf` nor `nan`).  Needs only that a ratio `n/n = 1` beats every uniform
of `[0,1)`. -/
theorem tree_proposal_valid (N : NTarget σ S U) (dflt : U) (sl : S) (fwd : Bool)
    (hacc : ∀ n u, 0 < n → N.acceptSub 0 n u = true)
    (d : Nat) (pt : σ) (us : List U) :
    let t := (buildTree N dflt sl fwd d pt us).1
    0 < t.nOk → N.sliceLe sl t.prop = true :=
  tree_proposal_valid' N dflt sl fwd hacc d pt us

/-- **A NUTS transition never moves to a point that fails the slice test**: the new sample is the
previous one or a leaf with `log_slicevar ≤ log_joint` (never a point of log-target `-inf`/`nan`:
the slice variable is finite when the previous sample is valid). -/
theorem nuts_transition_support (N : NTarget σ S U) (dflt : U) (sl : S) (maxDepth : Nat) (start : σ)
    (hacc : ∀ n u, 0 < n → N.acceptSub 0 n u = true)
    (htop : ∀ m u, N.acceptTop 0 m u = false)
    (fuel depth : Nat) (left right cur : σ) (nOk : Nat) (dirs : List Bool) (us : List U)
    (good : σ → Prop) (hcur : good cur) (hgood : ∀ p, N.sliceLe sl p = true → good p) :
    good (nutsTransition N dflt sl maxDepth start fuel depth left right cur nOk dirs us) :=
  nuts_transition_support' N dflt sl maxDepth start hacc htop fuel depth left right cur nOk dirs us good hcur hgood

/-- the leaves of a sub-tree are counted exactly: `n_sub` never exceeds the number of leaves `2^d` -/
theorem tree_nOk_le (N : NTarget σ S U) (dflt : U) (sl : S) (fwd : Bool) (d : Nat) (pt : σ) (us : List U) :
    (buildTree N dflt sl fwd d pt us).1.nOk ≤ 2 ^ d :=
  tree_nOk_le' N dflt sl fwd d pt us

/-! ### the algorithm the code implements is the Metropolis algorithm (reals; algorithm level)

`realTarget` instantiates the model's comparison `np.exp(cur - prev) < u` over ℝ.  The theorems say that the
accept test of `metroStep` accepts with the Metropolis probability `min(1, π(x')/π(x))` for a uniform on `[0,1)`,
and that a kernel with this acceptance and a symmetric proposal is reversible w.r.t. `π = exp(target)`.
(Statements about real numbers and Lebesgue measure: what floating point and the PRNG do is outside.) -/

/-- one model step over the reals: the proposal is taken exactly when `u ≤ exp(target(x') − target(x))` -/
theorem real_step_accepts {α ζ : Type} (prop : α → ζ → α) (lt : α → ℝ) (x : α) (z : ζ) (u : ℝ) :
    metroStep (realTarget prop lt) (x, lt x) (z, u) =
      if u ≤ Real.exp (lt (prop x z) - lt x) then (prop x z, lt (prop x z)) else (x, lt x) :=
  real_step_accepts' prop lt x z u

/-- **the accepting uniforms have Lebesgue measure `min(1, exp(cur − prev))`**: the Metropolis acceptance
probability -/
theorem accept_prob (lc lp : ℝ) :
    MeasureTheory.volume {u : ℝ | 0 ≤ u ∧ u < 1 ∧ u ≤ Real.exp (lc - lp)} =
      ENNReal.ofReal (min 1 (Real.exp (lc - lp))) :=
  accept_prob' lc lp

/-- **detailed balance**: with a symmetric proposal density the flow `x → y` equals the flow `y → x` -/
theorem detailed_balance (lx ly q_xy q_yx : ℝ) (hq : q_xy = q_yx) :
    Real.exp lx * q_xy * min 1 (Real.exp (ly - lx)) = Real.exp ly * q_yx * min 1 (Real.exp (lx - ly)) :=
  detailed_balance' lx ly q_xy q_yx hq

end ElfiVerif.Mcmc
