import ElfiVerif.Proofs.Bolfi

/-!
# C10 — the BOLFI posterior matches its definition; the fast GP path equals the GP

Property theorems about `Model/Bolfi.lean`, instantiated at `ℝ`.  The surrogate's mean `μ` and
variance `v` are arbitrary differentiable functions with `v > 0`; `Φ` is any function with derivative
`φ` and positive values (the normal cdf/pdf pair satisfies this) — nothing about Gaussian processes is
assumed.
-/
namespace ElfiVerif.Bolfi

open Real

/-- **The coded gradient is the derivative of `log Φ((t − μ)/√v)`** along any coordinate. -/
theorem grad_is_derivative (Φ φ μ v : ℝ → ℝ) (t x dμ dv : ℝ)
    (hμ : HasDerivAt μ dμ x) (hv : HasDerivAt v dv x) (hvpos : 0 < v x)
    (hΦ : HasDerivAt Φ (φ (zArg Real.sqrt t (μ x) (v x))) (zArg Real.sqrt t (μ x) (v x)))
    (hΦpos : 0 < Φ (zArg Real.sqrt t (μ x) (v x))) :
    HasDerivAt (fun y => Real.log (Φ (zArg Real.sqrt t (μ y) (v y))))
      (codedGrad Real.sqrt t (μ x) (v x) dμ dv
        (φ (zArg Real.sqrt t (μ x) (v x)) / Φ (zArg Real.sqrt t (μ x) (v x)))) x :=
  grad_is_derivative' Φ φ μ v t x dμ dv hμ hv hvpos hΦ hΦpos

/-- the ratio the code computes in log space, `exp(log pdf − log cdf)`, is `pdf / cdf` -/
theorem ratio_log_eq (p c : ℝ) (hp : 0 < p) (hc : 0 < c) :
    ratioLog Real.exp (Real.log p) (Real.log c) = p / c :=
  ratio_log_eq' p c hp hc

/-- **Outside the bounds the log posterior is −∞, inside (bounds inclusive) it is
`log Φ(z) + log prior`.** -/
theorem outside_is_neg_inf (bounds : List (ℝ × ℝ)) (x : List ℝ) (lc lp : ℝ) :
    (withinBounds bounds x = false → logPost bounds x lc lp = LogVal.negInf) ∧
    (withinBounds bounds x = true → logPost bounds x lc lp = LogVal.fin (lc + lp)) :=
  outside_is_neg_inf' bounds x lc lp

/-- the bounds are closed intervals: a point on a face is inside -/
theorem bounds_inclusive (lo hi : ℝ) (h : lo ≤ hi) :
    withinBounds [(lo, hi)] [lo] = true ∧ withinBounds [(lo, hi)] [hi] = true :=
  bounds_inclusive' lo hi h

/-- **The fast path's squared distances are the squared Euclidean distances**:
`|x|² + |Xᵢ|² − 2 x·Xᵢ = |x − Xᵢ|²`. -/
theorem rbf_r2 (x xi : List ℝ) (h : x.length = xi.length) : r2Fast x xi = r2Direct x xi :=
  rbf_r2' x xi h

/-- **Cholesky-solve form of the variance gradient**: for an invertible factor `L`,
`(L⁻¹ a) · (L⁻¹ b) = a · (L Lᵀ)⁻¹ b` — the fast path's `solve(L, ·)` products are the quadratic form
with the inverse of the Gram matrix `K = L Lᵀ`. -/
theorem chol_solve_identity {n : Nat} (L Linv : Matrix (Fin n) (Fin n) ℝ) (hL : Linv * L = 1)
    (hL' : L * Linv = 1) (a b : Fin n → ℝ) :
    (Linv.mulVec a) ⬝ᵥ (Linv.mulVec b) = a ⬝ᵥ ((Linv.transpose * Linv).mulVec b) ∧
    (Linv.transpose * Linv) * (L * L.transpose) = 1 :=
  chol_solve_identity' L Linv hL hL' a b

/-- derivative of the predictive variance `c − kᵀ A k` with symmetric `A`: `−2 · (dk)ᵀ A k` (one
coordinate; `k`, `dk` the kernel vector and its derivative) -/
theorem var_grad_quadratic {n : Nat} (A : Matrix (Fin n) (Fin n) ℝ) (hA : A.transpose = A)
    (k : ℝ → Fin n → ℝ) (dk : Fin n → ℝ) (c x : ℝ) (hk : ∀ i, HasDerivAt (fun y => k y i) (dk i) x) :
    HasDerivAt (fun y => c - (k y) ⬝ᵥ (A.mulVec (k y))) (-2 * (dk ⬝ᵥ (A.mulVec (k x)))) x :=
  var_grad_quadratic' A hA k dk c x hk

/-- **the coded kernel gradient `2·factor·(x − Xᵢ)·kx` is the derivative of the RBF kernel value** along a
coordinate (`c` = squared distance in the other coordinates) -/
theorem rbf_kernel_grad (v f a c x : ℝ) :
    HasDerivAt (fun y => rbfK Real.exp v f ((y - a) * (y - a) + c))
      (rbfDk x a f (rbfK Real.exp v f ((x - a) * (x - a) + c))) x :=
  rbf_kernel_grad' v f a c x

/-- **the fast mean gradient `dkdxᵀ · woodbury_vector` is the derivative of the fast mean `kx · woodbury_vector`** -/
theorem fast_mean_grad {n : Nat} (k : ℝ → Fin n → ℝ) (dk α : Fin n → ℝ) (x : ℝ)
    (hk : ∀ i, HasDerivAt (fun y => k y i) (dk i) x) :
    HasDerivAt (fun y => (k y) ⬝ᵥ α) (dk ⬝ᵥ α) x :=
  fast_mean_grad' k dk α x hk

/-- **Adding evidence keeps all earlier evidence unchanged and in order**, for any number of updates. -/
theorem evidence_append {α : Type} (old : List α) (news : List (List α)) :
    ∃ rest, news.foldl updateEvidence old = old ++ rest ∧ rest = news.flatten :=
  evidence_append' old news

end ElfiVerif.Bolfi
