import ElfiVerif.Proofs.Bo
import ElfiVerif.Proofs.BoAsync

/-!
# C11 — Bayesian optimisation simulates only inside the bounds and trains on what it ran

Property theorems about `Model/Bo.lean`.  The optimiser's end points, the truncated-normal draws, the
surrogate (`acquire` is ANY function of the evidence the surrogate has been updated with), the
simulator and the worker schedule (ANY list of `submit` / `consume` actions the engine accepts) are
universally quantified.
-/
namespace ElfiVerif.Bo

/-! ### inside the bounds, exactly `n` points -/

/-- `np.clip` lands in the interval and is the identity on it -/
theorem clip_in_box {K : Type} [LinearOrder K] (lo hi x : K) (h : lo ≤ hi) :
    lo ≤ clip lo hi x ∧ clip lo hi x ≤ hi ∧ (lo ≤ x → x ≤ hi → clip lo hi x = x) :=
  clip_in_box' lo hi x h

/-- **`minimize` returns a point of the box whatever the optimiser did**: for any end points and
values, the result is the clipped end point of a smallest value (the first one). -/
theorem minimize_in_box {K V : Type} [LinearOrder K] [LinearOrder V] (bounds : List (K × K))
    (hb : ∀ b ∈ bounds, b.1 ≤ b.2) (locs : List (List K)) (vals : List V) (hne : vals ≠ [])
    (hlen : locs.length = vals.length) (hdim : ∀ l ∈ locs, l.length = bounds.length) :
    ∃ r i, ∃ (hi : i < locs.length) (hv : i < vals.length),
      minimizeOut bounds locs vals = some r ∧ inBox bounds r = true ∧
      (∀ v ∈ vals, vals[i] ≤ v) ∧ r = clipVec bounds locs[i] :=
  minimize_in_box' bounds hb locs vals hne hlen hdim

/-- **`acquire(n)` with acquisition noise returns exactly `n` points, all inside the bounds**, for any
optimum inside the box, any noise variances (zero entries leave the coordinate alone) and any draws of
the truncated normal (which lie in the truncation interval = the bounds). -/
theorem acquire_base_spec {K : Type} [LinearOrder K] (isZero : K → Bool) (bounds : List (K × K))
    (stds xhat : List K) (draws : List (List K)) (n : Nat)
    (hx : inBox bounds xhat = true) (hs : stds.length = bounds.length)
    (hd : draws.length = n) (hdr : ∀ d ∈ draws, inBox bounds d = true) :
    (acquireBase isZero stds xhat draws n).length = n ∧
    ∀ r ∈ acquireBase isZero stds xhat draws n, inBox bounds r = true :=
  acquire_base_spec' isZero bounds stds xhat draws n hx hs hd hdr

/-- without noise (and for MaxVar / ExpIntVar): `n` copies of the optimum -/
theorem acquire_tile_spec {K : Type} [LinearOrder K] (bounds : List (K × K)) (xhat : List K) (n : Nat)
    (hx : inBox bounds xhat = true) :
    (acquireTile xhat n).length = n ∧ ∀ r ∈ acquireTile xhat n, inBox bounds r = true :=
  acquire_tile_spec' bounds xhat n hx

/-- uniform acquisition: `lo + u (hi − lo)` with `u ∈ [0, 1]` is inside the bounds -/
theorem uniform_in_box {K : Type} [Field K] [LinearOrder K] [IsStrictOrderedRing K]
    (bounds : List (K × K)) (hb : ∀ b ∈ bounds, b.1 ≤ b.2) (us : List K)
    (hl : us.length = bounds.length) (hu : ∀ u ∈ us, 0 ≤ u ∧ u ≤ 1) :
    inBox bounds (uniformPoint bounds us) = true :=
  uniform_in_box' bounds hb us hl hu

/-- **RandMaxVar returns exactly `n` chain states** (repaired guard) -/
theorem randmaxvar_count {α : Type} (nSamples warmup n : Nat) (samples : List α)
    (perm : List α → List α) (hperm : ∀ l, (perm l).length = l.length)
    (hs : samples.length = nSamples) (hpos : 0 < nSamples) (hn : 1 ≤ n) (r : List α)
    (h : randMaxVarPick true nSamples warmup n samples perm = some r) :
    r.length = n :=
  randmaxvar_count' nSamples warmup n samples perm hperm hs hpos hn r h

/-- with the original guard (`n ≤ n_samples`) too few points came back: n = 40 of 50 samples with
25 warm-up states gives 25 (replayed on the pre-fix code) -/
theorem randmaxvar_old_guard_short :
    (randMaxVarPick false 50 25 40 (List.range 50) id).map List.length = some 25 :=
  randmaxvar_old_guard_short'

/-- every returned point is a state of the chain -/
theorem randmaxvar_members {α : Type} (g : Bool) (nSamples warmup n : Nat) (samples : List α)
    (perm : List α → List α) (hperm : ∀ l, ∀ x ∈ perm l, x ∈ l) (r : List α)
    (h : randMaxVarPick g nSamples warmup n samples perm = some r) : ∀ x ∈ r, x ∈ samples :=
  randmaxvar_members' g nSamples warmup n samples perm hperm r h

/-- **the chain RandMaxVar samples never leaves the bounds**: with the log density `−inf` outside
(the repaired code) and a start inside, every state returned by the Metropolis sampler (C09 model) is
inside, for any proposal stream. -/
theorem randmaxvar_chain_in_box {α ζ U T : Type} (M : Mcmc.MTarget α ζ U T) (inside : α → Bool)
    (negInf : T) (f : α → T) (hlt : M.lt = boxedTarget inside negInf f) (hinf : M.isInf negInf = true)
    (n w : Nat) (x0 : α) (h0 : inside x0 = true) (draws : List (ζ × U)) (out : List α)
    (h : Mcmc.metropolis M n w x0 draws = .ok out) : ∀ x ∈ out, inside x = true :=
  randmaxvar_chain_in_box' M inside negInf f hlt hinf n w x0 h0 draws out h

/-! ### acquisition index, evidence bookkeeping -/

/-- prior draws are used exactly while `batch_size·i` is below the number of initial points still to
simulate -/
theorem acq_index_neg_iff (b bpa nInitial nPre i : Nat) (hb : 0 < b) (hbpa : 0 < bpa)
    (hpre : nPre ≤ nInitial) :
    acqIndex b bpa nInitial nPre i < 0 ↔ b * i < nInitial - nPre :=
  acq_index_neg_iff' b bpa nInitial nPre i hb hbpa hpre

/-- afterwards the index is the number of the acquisition group -/
theorem acq_index_group (b bpa nInitial nPre nInit i : Nat) (hb : 0 < b) (hbpa : 0 < bpa)
    (hpre : nPre ≤ nInitial) (hoff : nInitial - nPre = b * nInit) (hi : nInit ≤ i) :
    acqIndex b bpa nInitial nPre i = (((i - nInit) / bpa : Nat) : Int) :=
  acq_index_group' b bpa nInitial nPre nInit i hb hbpa hpre hoff hi

variable {τ β : Type}

/-- **Bookkeeping under every schedule**: batches are consumed in index order, each once; the
surrogate has been updated with exactly the consumed batches; the outstanding ones are the next
indices; never more than `max_parallel_batches` outstanding nor more than the objective submitted;
`n_evidence` counts precomputed + consumed. -/
theorem bo_bookkeeping (P : BoParams τ β) (mpb : Nat) (sched : List Act) (e : BoEng τ β)
    (h : BoEng.run P mpb BoEng.init sched = some e) (nPre b : Nat) :
    e.consumed = List.range e.consumed.length ∧ e.ev.length = e.consumed.length ∧
    e.pending.map (·.1) = List.range' e.consumed.length e.pending.length ∧
    e.next = e.consumed.length + e.pending.length ∧ e.pending.length ≤ mpb ∧ e.next ≤ P.total ∧
    nEvidence nPre b e = nPre + b * e.ev.length :=
  bo_bookkeeping' P mpb sched e h nPre b

/-- **The evidence is what was simulated**: entry `k` of the evidence is the result of running batch
`k` (with prior draws or with some acquired rows), and so is every outstanding batch. -/
theorem bo_evidence_is_what_ran (P : BoParams τ β) (mpb : Nat) (sched : List Act) (e : BoEng τ β)
    (h : BoEng.run P mpb BoEng.init sched = some e) :
    (∀ k (hk : k < e.ev.length), ∃ a, e.ev[k] = P.sim k a) ∧ ∀ p ∈ e.pending, ∃ a, p.2 = P.sim p.1 a :=
  bo_evidence_is_what_ran' P mpb sched e h

/-- **Synchronous acquisition is schedule independent**: if `acquire` returns exactly the requested
number of rows, then under EVERY accepted schedule the evidence (consumed, then outstanding) is the
evidence of the sequential run. -/
theorem bo_sync_schedule_independent (P : BoParams τ β) (hsync : P.sync = true) (hbpa : 0 < P.bpa)
    (hacq : ∀ ev t, (P.acquire ev t).length = P.bpa) (mpb : Nat) (sched : List Act) (e : BoEng τ β)
    (h : BoEng.run P mpb BoEng.init sched = some e) :
    e.ev = seqEvidence P e.consumed.length ∧ e.ev ++ e.pending.map (·.2) = seqEvidence P e.next :=
  bo_sync_schedule_independent' P hsync hbpa hacq mpb sched e h

/-- two complete runs under different schedules and different `max_parallel_batches` fit the surrogate to
the same evidence -/
theorem bo_sync_pair (P : BoParams τ β) (hsync : P.sync = true) (hbpa : 0 < P.bpa)
    (hacq : ∀ ev t, (P.acquire ev t).length = P.bpa) (m₁ m₂ : Nat) (s₁ s₂ : List Act) (e₁ e₂ : BoEng τ β)
    (h₁ : BoEng.run P m₁ BoEng.init s₁ = some e₁) (h₂ : BoEng.run P m₂ BoEng.init s₂ = some e₂)
    (hc₁ : e₁.consumed.length = P.total) (hc₂ : e₂.consumed.length = P.total) : e₁.ev = e₂.ev :=
  bo_sync_pair' P hsync hbpa hacq m₁ m₂ s₁ s₂ e₁ e₂ h₁ h₂ hc₁ hc₂

/-- with synchronous acquisition every `acquire` call sees a surrogate that holds ALL batches submitted
so far (nothing outstanding), at a group boundary -/
theorem bo_sync_acquire_events (P : BoParams τ β) (hsync : P.sync = true) (hbpa : 0 < P.bpa)
    (hacq : ∀ ev t, (P.acquire ev t).length = P.bpa) (mpb : Nat) (sched : List Act) (e : BoEng τ β)
    (h : BoEng.run P mpb BoEng.init sched = some e) :
    ∀ t n p, BoEv.acquired t n p ∈ e.log → p = 0 ∧ n = P.nInit + t * P.bpa :=
  bo_sync_acquire_events' P hsync hbpa hacq mpb sched e h

/-- **Under EVERY schedule, synchronous or asynchronous, the batches after the initial evidence run with
acquired points**: batch `k < nInit` runs with prior draws; batch `k ≥ nInit` runs with slice
`(k − nInit) mod bpa` of the acquisition `t = (k − nInit) / bpa`, made on a surrogate that held the first
`n` consumed batches for some `n` (with synchronous acquisition `n` is all of them, see
`bo_sync_acquire_events`; with `async_acq` it is whatever had arrived).  The acquisition index comes from
the index of the batch being SUBMITTED, not from the number of batches consumed so far - with batches
in flight the two differ. -/
theorem bo_batches_after_init_are_acquired (P : BoParams τ β) (hbpa : 0 < P.bpa)
    (hacq : ∀ ev t, (P.acquire ev t).length = P.bpa) (mpb : Nat) (sched : List Act) (e : BoEng τ β)
    (h : BoEng.run P mpb BoEng.init sched = some e) :
    ∀ k (hk : k < e.ev.length),
      (k < P.nInit → e.ev[k] = P.sim k none) ∧
      (P.nInit ≤ k → ∃ n, n ≤ e.ev.length ∧ ∃ x,
        (P.acquire (e.ev.take n) ((k - P.nInit) / P.bpa))[(k - P.nInit) % P.bpa]? = some x ∧
        e.ev[k] = P.sim k (some x)) :=
  bo_batches_after_init_are_acquired' P hbpa hacq mpb sched e h

/-- non-vacuity for the asynchronous engine: three batches in flight across the initial-evidence boundary;
batches 1 and 2 run with acquisitions made on an EMPTY surrogate (nothing had arrived), batch 3 with one
made after two arrivals -/
theorem bo_async_example :
    let P : BoParams (Nat × Option Nat) Nat :=
      { nInit := 1, bpa := 1, total := 4, sync := false, sim := fun i a => (i, a), acquire := fun ev t => [10 * t + ev.length] }
    (BoEng.run P 3 BoEng.init [.submit, .submit, .submit, .consume, .consume, .submit, .consume, .consume]).map (·.ev) =
      some [(0, none), (1, some 0), (2, some 10), (3, some 22)] :=
  bo_async_example'

/-- the gate matters: with `async_acq` two schedules give different evidence -/
theorem bo_async_counterexample :
    let P : BoParams (Nat × Option Nat) Nat :=
      { nInit := 1, bpa := 1, total := 3, sync := false, sim := fun i a => (i, a), acquire := fun ev _ => [ev.length] }
    (BoEng.run P 2 BoEng.init [.submit, .consume, .submit, .consume, .submit, .consume]).map (·.ev) ≠
    (BoEng.run P 2 BoEng.init [.submit, .submit, .consume, .consume, .submit, .consume]).map (·.ev) :=
  bo_async_counterexample'

/-- non-vacuity: the synchronous engine accepts a parallel schedule of that toy and reaches the objective -/
theorem bo_sync_example :
    let P : BoParams (Nat × Option Nat) Nat :=
      { nInit := 2, bpa := 2, total := 6, sync := true, sim := fun i a => (i, a), acquire := fun ev t => [10 * t + ev.length, 10 * t + ev.length + 1] }
    (BoEng.run P 2 BoEng.init [.submit, .submit, .consume, .consume, .submit, .submit, .consume, .consume,
        .submit, .consume, .submit, .consume]).map (fun e => (e.ev, e.consumed.length)) =
      some ([(0, none), (1, none), (2, some 2), (3, some 3), (4, some 14), (5, some 15)], 6) :=
  bo_sync_example'

/-! ### gradients of the acquisition functions -/

open Real in
/-- **LCBSC**: the coded gradient is the derivative of `mean − sqrt(β·var)` -/
theorem lcbsc_grad_is_derivative (μ v : ℝ → ℝ) (β x dμ dv : ℝ) (hμ : HasDerivAt μ dμ x)
    (hv : HasDerivAt v dv x) (hβ : 0 < β) (hvpos : 0 < v x) :
    HasDerivAt (fun y => lcbscVal Real.sqrt β (μ y) (v y)) (lcbscGrad Real.sqrt β (v x) dμ dv) x :=
  lcbsc_grad_is_derivative' μ v β x dμ dv hμ hv hβ hvpos

/-- MaxVar: `grad_a` is the derivative of `a = (ε − mean)/sqrt(σ² + var)` -/
theorem mv_gradA_is_derivative (μ v : ℝ → ℝ) (ε s2 x dμ dv : ℝ) (hμ : HasDerivAt μ dμ x)
    (hv : HasDerivAt v dv x) (hpos : 0 < s2 + v x) :
    HasDerivAt (fun y => mvA Real.sqrt ε s2 (μ y) (v y)) (mvGradA Real.sqrt ε s2 (μ x) (v x) dμ dv) x :=
  mv_gradA_is_derivative' μ v ε s2 x dμ dv hμ hv hpos

/-- MaxVar: `grad_b` is the derivative of `b = sqrt(σ²)/sqrt(σ² + 2 var)` -/
theorem mv_gradB_is_derivative (v : ℝ → ℝ) (s2 x dv : ℝ) (hv : HasDerivAt v dv x)
    (hpos : 0 < s2 + 2 * v x) :
    HasDerivAt (fun y => mvB Real.sqrt s2 (v y)) (mvGradB Real.sqrt s2 (v x) dv) x :=
  mv_gradB_is_derivative' v s2 x dv hv hpos

open Real in
/-- **MaxVar**: the coded gradient is the derivative of `prior² · (Φ(a) − Φ(a)² − 2 T(a, b))` for any
`Φ` with the standard normal density as derivative and any `T` with Owen's-T partial derivatives at
`(a, b)`; `p' = p · ∇log p`. -/
theorem mv_grad_is_derivative (Φ : ℝ → ℝ) (T : ℝ × ℝ → ℝ) (p a b : ℝ → ℝ) (x glp da db : ℝ)
    (hΦ : ∀ z, HasDerivAt Φ (Real.exp (-(z * z) / 2) / Real.sqrt (2 * π)) z)
    (hT : HasFDerivAt T
      ((((Real.exp (-(a x * a x) / 2) / Real.sqrt (2 * π)) * (1 - 2 * Φ (a x * b x)) / 2) • ContinuousLinearMap.fst ℝ ℝ ℝ)
        + ((Real.exp (-(a x * a x) * (1 + b x * b x) / 2) / (2 * π * (1 + b x * b x))) • ContinuousLinearMap.snd ℝ ℝ ℝ))
      (a x, b x))
    (hp : HasDerivAt p (p x * glp) x) (ha : HasDerivAt a da x) (hb : HasDerivAt b db x) :
    HasDerivAt (fun y => mvVal (p y) (Φ (a y)) (T (a y, b y)))
      (mvGrad Real.sqrt Real.exp π (p x) glp (Φ (a x)) (Φ (a x * b x)) (T (a x, b x)) (a x) (b x) da db) x :=
  mv_grad_is_derivative' Φ T p a b x glp da db hΦ hT hp ha hb

end ElfiVerif.Bo
