import ElfiVerif.Proofs.Distance

/-!
# C12 — distance nodes compute the stated metric; adaptive scales ignore batching

Property theorems about `Model/Distance.lean`.  `K` is any field of characteristic zero (ℚ, ℝ),
lists (batches, partitions, numbers of summaries, update rounds) are unbounded.
-/
namespace ElfiVerif.Distance

variable {K : Type} [Field K] [CharZero K]

/-- **Welford accumulation is partition invariant.**  For EVERY way of splitting the adaptation data
into non-empty `add_data` calls, the store ends as `(N, Σx/N, Σ(x − mean)²)` of the concatenated
data — hence the same for all partitions. -/
theorem welford_partition_invariant (parts : List (List K)) (hne : ∀ p ∈ parts, p ≠ []) :
    let xs := parts.flatten
    let st := parts.foldl addData Store.init
    st.cnt = (xs.length : K) ∧
    (xs ≠ [] → st.mean = xs.sum / (xs.length : K)) ∧
    st.m2 = (xs.map (fun x => (x - xs.sum / (xs.length : K)) ^ 2)).sum :=
  welford_partition_invariant' parts hne

/-- two partitions of the same data give the same store -/
theorem welford_same_for_all_partitions (p₁ p₂ : List (List K)) (h₁ : ∀ p ∈ p₁, p ≠ [])
    (h₂ : ∀ p ∈ p₂, p ≠ []) (hflat : p₁.flatten = p₂.flatten) (hne : p₁.flatten ≠ []) :
    p₁.foldl addData Store.init = p₂.foldl addData Store.init :=
  welford_same_for_all_partitions' p₁ p₂ h₁ h₂ hflat hne

/-- **scale² = population variance** of all rows added in the round -/
theorem scale_is_population_std (parts : List (List K)) (hne : ∀ p ∈ parts, p ≠ [])
    (hdata : parts.flatten ≠ []) :
    let xs := parts.flatten
    scaleSq (parts.foldl addData Store.init) =
      (xs.map (fun x => (x - xs.sum / (xs.length : K)) ^ 2)).sum / (xs.length : K) :=
  scale_is_population_std' parts hne hdata

/-- **The newest distance is the Euclidean distance of summaries divided by the scale**
(squared form; `cdist(…, 'euclidean', w = (1/scale)²)` computes `sqrt` of the left-hand side). -/
theorem newest_is_scaled_euclid (scale u v : List K) :
    weightedEuclidSq scale u v = scaledEuclidSq scale u v :=
  newest_is_scaled_euclid' scale u v

/-- **Earlier distances stay available unchanged**: after an update, every row of the nested
distance is the old row with exactly one new entry appended. -/
theorem nested_keeps_old (fns : List (List K → List K → K)) (newest : List K → List K → K)
    (u : List (List K)) (v : List K) :
    nestedDistance (updateDistance fns newest) u v =
      List.zipWith (fun old row => old ++ [newest row v]) (nestedDistance fns u v) u :=
  nested_keeps_old' fns newest u v

/-- **Row-wise distance**: with summaries that all have `n` rows and observed summaries that stack to
ONE row `o`, a metric node returns shape `(n,)` with entry `i` = `metric (stacked row i) o` — for
scalar and vector summaries alike, `n = 1` included. -/
theorem distance_rowwise (metric : List K → List K → K) (summaries : List (Arr K)) (observed : List (Obs K))
    (s : List (List K)) (o : List K)
    (hs : hcat (summaries.map Arr.rows2d) = some s) (ho : hcat (observed.map Obs.rows2d) = some [o]) :
    distanceAsDiscrepancy (cdist metric) summaries observed = .ok (.vec (s.map (fun r => metric r o))) :=
  distance_rowwise' metric summaries observed s o hs ho

/-- stacking puts the columns side by side: row `i` of the stack is the concatenation of row `i`
of every summary (1-D summaries contribute one entry) -/
theorem hcat_rows (blocks : List (List (List K))) (s : List (List K)) (h : hcat blocks = some s)
    (i : Nat) (hi : i < s.length) :
    (∀ b ∈ blocks, b.length = s.length) ∧
    s[i] = (blocks.map (fun b => b[i]?.getD [])).flatten :=
  hcat_rows' blocks s h i hi

/-- mismatching batch lengths are rejected, not broadcast -/
theorem hcat_mismatch_rejected (b₁ b₂ : List (List K)) (rest : List (List (List K)))
    (s : List (List K)) (h : hcat (b₂ :: rest) = some s) (hne : b₁.length ≠ s.length) :
    hcat (b₁ :: b₂ :: rest) = none :=
  hcat_mismatch_rejected' b₁ b₂ rest s h hne

/-- **Re-sorting after an adaptive update keeps rows aligned** (the code after fix 229a882): for any
`argsort` returning a permutation of the indices that sorts the recomputed distances, entry `i` of
the stored discrepancy column is the new distance of row `i` of every other output, the
discrepancy column is ascending and the rows are a permutation of the old rows. -/
theorem resort_alignment {κ ρ : Type} [LinearOrder κ] (argsort : List κ → List Nat) (newDist : ρ → κ)
    (rows : List ρ)
    (hperm : (argsort (rows.map newDist)).Perm (List.range rows.length))
    (hsorted : (gather (rows.map newDist) (argsort (rows.map newDist))).Pairwise (· ≤ ·)) :
    let r := updateDistances argsort newDist rows
    r.1 = r.2.map newDist ∧ r.1.Pairwise (· ≤ ·) ∧ r.2.Perm rows :=
  resort_alignment' argsort newDist rows hperm hsorted

/-- the code BEFORE the fix stored the distances unsorted: rows 3,1,5 with distance `10 − row` and
the sorting permutation `[2,0,1]` give discrepancies `[7,9,5]` next to rows `[5,3,1]`. -/
theorem resort_old_counterexample :
    let r := updateDistancesOld (κ := Nat) (ρ := Nat) (fun _ => [2, 0, 1]) (fun r => 10 - r) [3, 1, 5]
    r.1 ≠ r.2.map (fun r => 10 - r) ∧ ¬ r.1.Pairwise (· ≤ ·) :=
  resort_old_counterexample'

end ElfiVerif.Distance
