import ElfiVerif.Proofs.Stats

/-!
# C13 — weighted-sample statistics and the mixture proposal obey their definitions

Property theorems about `Model/Stats.lean`.  `K` is any linearly ordered field (so the statements
hold over ℚ and ℝ alike; floating-point rounding is outside the model), `sort` is any sorting
permutation (numpy's `argsort` is not assumed stable), lists have any length.
-/
namespace ElfiVerif.Stats

variable {K : Type} [Field K] [LinearOrder K] [IsStrictOrderedRing K]

/-- the concrete sort used by the driver is a sorting permutation -/
theorem sortByFst_ok : SortOK (sortByFst (K := K)) := sortByFst_ok'

/-- **Characterisation** (`0 < α ≤ 1`): the weighted quantile is the least sample value whose
cumulative (unnormalised) weight reaches `α · Σw`.  Everything else follows from this. -/
theorem quantile_char (sort : List (K × K) → List (K × K)) (hs : SortOK sort) (x w : List K) (α : K)
    (hlen : x.length = w.length) (hw : ∀ a ∈ w, 0 ≤ a) (hsum : 0 < w.sum)
    (hα0 : 0 < α) (hα1 : α ≤ 1) :
    ∃ q, weightedQuantile sort x (some w) α = some q ∧ q ∈ x ∧ α * w.sum ≤ wLE x w q ∧
      ∀ v ∈ x, v < q → wLE x w v < α * w.sum :=
  quantile_char' sort hs x w α hlen hw hsum hα0 hα1

/-- `α = 0`: the smallest sample value -/
theorem quantile_zero (sort : List (K × K) → List (K × K)) (hs : SortOK sort) (x w : List K)
    (hlen : x.length = w.length) (hne : x ≠ []) :
    ∃ q, weightedQuantile sort x (some w) 0 = some q ∧ q ∈ x ∧ ∀ v ∈ x, q ≤ v :=
  quantile_zero' sort hs x w hlen hne

/-- **The property as stated**: `q` is an element of the sample, the normalised weight of values
`≤ q` is at least `α` and the normalised weight of values `< q` is at most `α` — for ties, zero
weights, unsorted input, any `α ∈ [0,1]`. -/
theorem quantile_spec (sort : List (K × K) → List (K × K)) (hs : SortOK sort) (x w : List K) (α : K)
    (hlen : x.length = w.length) (hw : ∀ a ∈ w, 0 ≤ a) (hsum : 0 < w.sum)
    (hα0 : 0 ≤ α) (hα1 : α ≤ 1) :
    ∃ q, weightedQuantile sort x (some w) α = some q ∧ q ∈ x ∧
      α ≤ wLE x w q / w.sum ∧ wLT x w q / w.sum ≤ α :=
  quantile_spec' sort hs x w α hlen hw hsum hα0 hα1

/-- **Monotone in `α`.** -/
theorem quantile_mono (sort : List (K × K) → List (K × K)) (hs : SortOK sort) (x w : List K) (α β : K)
    (hlen : x.length = w.length) (hw : ∀ a ∈ w, 0 ≤ a) (hsum : 0 < w.sum)
    (hα0 : 0 ≤ α) (hαβ : α ≤ β) (hβ1 : β ≤ 1) (qa qb : K)
    (ha : weightedQuantile sort x (some w) α = some qa)
    (hb : weightedQuantile sort x (some w) β = some qb) : qa ≤ qb :=
  quantile_mono' sort hs x w α β hlen hw hsum hα0 hαβ hβ1 qa qb ha hb

/-- **Invariant to rescaling the weights** by any `c > 0`. -/
theorem quantile_scale_inv (sort : List (K × K) → List (K × K)) (hs : SortOK sort) (x w : List K)
    (α c : K) (hlen : x.length = w.length) (hw : ∀ a ∈ w, 0 ≤ a) (hsum : 0 < w.sum)
    (hα0 : 0 ≤ α) (hα1 : α ≤ 1) (hc : 0 < c) :
    weightedQuantile sort x (some (w.map (fun a => c * a))) α = weightedQuantile sort x (some w) α :=
  quantile_scale_inv' sort hs x w α c hlen hw hsum hα0 hα1 hc

/-- **Independent of how `argsort` orders ties.** -/
theorem quantile_sort_indep (s₁ s₂ : List (K × K) → List (K × K)) (h₁ : SortOK s₁) (h₂ : SortOK s₂)
    (x w : List K) (α : K) (hlen : x.length = w.length) (hw : ∀ a ∈ w, 0 ≤ a) (hsum : 0 < w.sum)
    (hα0 : 0 ≤ α) (hα1 : α ≤ 1) :
    weightedQuantile s₁ x (some w) α = weightedQuantile s₂ x (some w) α :=
  quantile_sort_indep' s₁ s₂ h₁ h₂ x w α hlen hw hsum hα0 hα1

/-- `weights=None` means equal weights -/
theorem quantile_default_weights (sort : List (K × K) → List (K × K)) (x : List K) (α : K) :
    weightedQuantile sort x none α = weightedQuantile sort x (some (ones x.length)) α := rfl

/-- **Weighted variance = reliability-weights formula**
`Σ wᵢ (xᵢ − μ)² / (V₁ − V₂/V₁)`, `μ = Σ wᵢ xᵢ / V₁`, `V₁ = Σ wᵢ`, `V₂ = Σ wᵢ²`. -/
theorem wvar_formula (x w : List K) :
    weightedVar x (some w) =
      ((x.zip w).map (fun p => p.2 * (p.1 - ((x.zip w).map (fun p => p.1 * p.2)).sum / w.sum) ^ 2)).sum
        / (w.sum - (w.map (fun a => a ^ 2)).sum / w.sum) :=
  wvar_formula' x w

/-- with equal weights it is the usual unbiased sample variance `Σ (xᵢ − x̄)² / (n − 1)` -/
theorem wvar_equal_weights (x : List K) (hn : 2 ≤ x.length) :
    weightedVar x none =
      (x.map (fun a => (a - x.sum / (x.length : K)) ^ 2)).sum / ((x.length : K) - 1) :=
  wvar_equal_weights' x hn

/-- rescaling reliability weights does not change it -/
theorem wvar_weight_scale_inv (x w : List K) (c : K) (hc : c ≠ 0) (hlen : x.length = w.length)
    (hsum : w.sum ≠ 0) :
    weightedVar x (some (w.map (fun a => c * a))) = weightedVar x (some w) :=
  wvar_weight_scale_inv' x w c hc hlen hsum

/-- **Effective sample size = `(Σw)² / Σw²`** of the unnormalised weights -/
theorem ess_formula (w : List K) (hw : ∀ a ∈ w, 0 ≤ a) (hsum : 0 < w.sum) :
    computeEss w = .ok (w.sum ^ 2 / (w.map (fun a => a ^ 2)).sum) :=
  ess_formula' w hw hsum

theorem ess_rejects_negative (w : List K) (h : ∃ a ∈ w, a < 0) :
    computeEss w = .error .valueError :=
  ess_rejects_negative' w h

theorem ess_rejects_all_zero (w : List K) (h : w.sum = 0) : computeEss w = .error .valueError :=
  ess_rejects_all_zero' w h

/-- **Mixture density = weighted sum of the component densities**, whenever `np.squeeze` does not
mangle the means: i.e. not (exactly one component in more than one dimension). -/
theorem gm_pdf_sum (N : List K → List K → K) (means : MeansArg K) (w x : List K)
    (hshape : match means with
      | .mat rows d => ¬(rows.length = 1 ∧ d ≠ 1)
      | _ => True)
    (hw : ∀ a ∈ w, 0 ≤ a) (hsum : 0 < w.sum) :
    gmPdf N means (some w) x = .ok (gmPdfSpec N means w x) :=
  gm_pdf_sum' N means w x hshape hw hsum

/-- the guard of `gm_pdf_sum` is necessary for the code as it is: ONE two-dimensional component
with mean (1, 2) is evaluated as two one-dimensional components (replayed on the real code). -/
theorem gm_pdf_single_component_counterexample :
    ∃ (N : List Rat → List Rat → Rat) (means : MeansArg Rat) (w x : List Rat),
      (∀ a ∈ w, 0 ≤ a) ∧ 0 < w.sum ∧
      gmPdf N means none x ≠ .ok (gmPdfSpec N means w x) ∧ w = ones (intendedComponents means).length :=
  gm_pdf_single_component_counterexample'

/-- **Constrained sampler**: exactly `size` points, all satisfying the constraint (partial
correctness: whenever the loop ends). -/
theorem rvs_constrained {α : Type} (draw : Nat → Nat → List α) (ok : α → Bool) (size fuel : Nat)
    (out : List α) (h : rvsConstrained draw ok size fuel = some out) :
    out.length = size ∧ ∀ a ∈ out, ok a = true :=
  rvs_constrained' draw ok size fuel out h

end ElfiVerif.Stats
