import ElfiVerif.Proofs.GraphEdit

/-!
# C14 — editing, copying and saving a model preserves its structure and meaning

Property theorems about `Model/GraphEdit.lean`: any model, any node names, any edit, any sequence
of mutations of a copy.
-/
namespace ElfiVerif.GraphEdit

/-- **Edits keep the model well-formed**: node names stay distinct, every edge joins two existing
nodes, observed data belongs to existing nodes — after `addNode`, `addEdge`, `removeNode` (with its
recursive clean-up of private constants) and `updateNode` (= `become`). -/
theorem wf_addNode (m m' : Model) (n : Name) (a : Attr) (h : WF m) (hr : m.addNode n a = .ok m') : WF m' :=
  wf_addNode' m m' n a h hr

theorem wf_addEdge (m m' : Model) (p c : Name) (prm : Option Param) (h : WF m)
    (hr : m.addEdge p c prm = .ok m') : WF m' :=
  wf_addEdge' m m' p c prm h hr

theorem wf_removeNode (fuel : Nat) (m : Model) (n : Name) (h : WF m) : WF (m.removeNode fuel n) :=
  wf_removeNode' fuel m n h

theorem wf_updateNode (m m' : Model) (node upd : Name) (h : WF m) (hr : m.updateNode node upd = .ok m') :
    WF m' :=
  wf_updateNode' m m' node upd h hr

/-- **Removal**: the node is gone with its observed data, no other user (non-private) node is
removed, and every node that disappears besides it is a private constant. -/
theorem removeNode_spec (fuel : Nat) (m : Model) (n : Name) (h : WF m) :
    let m' := m.removeNode fuel n
    m'.has n = false ∧ (∀ p ∈ m'.observed, p.1 ≠ n) ∧
    (∀ x, m.has x = true → x ≠ n → x.priv = false → m'.has x = true) ∧
    (∀ x, m'.has x = true → m.has x = true) :=
  removeNode_spec' fuel m n h

/-- **become**: the replaced node keeps its children (with their edge parameters), takes over the
replacement's state, the replacement's parents (with their parameters) and the replacement's
observed data (its own old observed data is dropped), and the replacement is gone.  (`hloop`: no
self-loops — implied by acyclicity; without it the statement is false, see
`become_spec_counterexample` in Proofs/GraphEdit.lean.) -/
theorem become_spec (m m' : Model) (node upd : Name) (h : WF m) (hleaf : PrivLeaves m)
    (hloop : ∀ e ∈ m.edges, e.src ≠ e.dst) (hr : m.updateNode node upd = .ok m') :
    m'.has node = true ∧ m'.has upd = false ∧
    m'.attr node = m.attr upd ∧
    (∀ c prm, (⟨node, c, prm⟩ : Edge) ∈ m.edges → c ≠ upd → (⟨node, c, prm⟩ : Edge) ∈ m'.edges) ∧
    (∀ p prm, (⟨p, upd, prm⟩ : Edge) ∈ m.edges → (⟨p, node, prm⟩ : Edge) ∈ m'.edges) ∧
    (∀ p prm, (⟨p, node, prm⟩ : Edge) ∈ m'.edges → (⟨p, upd, prm⟩ : Edge) ∈ m.edges) ∧
    ((m'.observed.find? (fun p => p.1 == node)).map (·.2) =
      (m.observed.find? (fun p => p.1 == upd)).map (·.2)) :=
  become_spec_corrected m m' node upd h hleaf hloop hr

/-- **A become whose replacement depends on the replaced node is refused** (it would create a
cycle; fix edc36da), and a refused edit changes nothing (the result carries no new model). -/
theorem become_cycle_refused (m : Model) (node upd : Name)
    (h : m.reach m.nodes.length node upd = true) : m.updateNode node upd = .error .valueError :=
  become_cycle_refused' m node upd h

/-- **parameter_names** lists exactly the nodes carrying the parameter flag, in ascending name
order, each once (for distinct node names). -/
theorem parameter_names_sorted_exact (m : Model) (h : WF m) (hid : ∀ a ∈ m.nodes, ∀ b ∈ m.nodes, a.1.id = b.1.id → a = b) :
    m.parameterNames.Pairwise (· < ·) ∧
    ∀ i, i ∈ m.parameterNames ↔ ∃ p ∈ m.nodes, p.1.id = i ∧ p.2.parameter = true :=
  parameter_names_sorted_exact' m h hid

/-- **A copy is independent of the original** (after fix 3608a3c): whatever sequence of mutations is
applied to the copy — parameter flags, observed data, removal of observed entries — the original
still shows the same parameter flag on every node and the same observed dictionary.  (`hops`: flags
are set on nodes the model has; the real code raises KeyError otherwise.) -/
theorem copy_independent (h : Heap) (m : Handle) (hwf : HeapOK h m) (ops : List CopyOp)
    (hops : ∀ op ∈ ops, ∀ node v, op = .setFlag node v → node ∈ m.nodeRef.map (·.1)) :
    let hc := copyOwn h m
    let h' := ops.foldl (fun acc op => acc.apply hc.2 op) hc.1
    (∀ node, h'.flag m node = h.flag m node) ∧ h'.observed m = h.observed m :=
  copy_independent_corrected h m hwf ops hops

/-- the copy starts out equal to the original -/
theorem copy_same_view (h : Heap) (m : Handle) (hwf : HeapOK h m) :
    let hc := copyOwn h m
    (∀ node, node ∈ m.nodeRef.map (·.1) → hc.1.flag hc.2 node = h.flag m node) ∧ hc.1.observed hc.2 = h.observed m :=
  copy_same_view' h m hwf

/-- the shallow copy of the code BEFORE the fix is not independent: setting a flag or an observed
entry on the copy shows through in the original. -/
theorem copy_alias_counterexample :
    let h : Heap := ⟨[(0, false)], [(1, [])], 2⟩
    let m : Handle := ⟨[(7, 0)], 1⟩
    let hc := copyShallow h m
    (hc.1.apply hc.2 (.setFlag 7 true)).flag m 7 ≠ h.flag m 7 ∧
    (hc.1.apply hc.2 (.setObserved 7 5)).observed m ≠ h.observed m :=
  copy_alias_counterexample'

end ElfiVerif.GraphEdit
