import ElfiVerif.Proofs.SubSeed

/-!
# C15 — batch sub-seeds are distinct and depend only on (seed, index)

Property theorems about `Model/SubSeed.lean` (the model of `elfi.utils.get_sub_seed`).
The stream `s` is arbitrary: every statement holds for every PRNG output sequence, every range
`high`, every index and every request history — no bound on any of them.
-/
namespace ElfiVerif.SubSeed

/-- the cache record describes a prefix of the stream -/
def CacheOk (s : Nat → Nat) : Option Cache → Prop
  | none => True
  | some c => c.seen = prefixSet s c.pos

/-- **Characterisation, with or without a cache.**  Whenever a call returns, the sub seed of index
`i` is the `(i+1)`-th distinct value of the stream, whatever (valid) cache it was given, and the
cache it leaves behind is valid again. -/
theorem subseed_eq_nth_distinct (s : Nat → Nat) (high fuel i : Nat) (cache : Option Cache)
    (hc : CacheOk s cache) (v : Nat) (c' : Cache)
    (h : getSubSeed s high fuel i cache = .ok (v, c')) :
    ∃ p, IsNthDistinctPos s i p ∧ v = s p ∧ c' = ⟨p + 1, prefixSet s (p + 1)⟩ ∧
      CacheOk s (some c') := by
  unfold getSubSeed at h
  split at h
  · simp at h
  · have key : ∀ pos, (prefixSet s pos).length < i + 1 →
        loop s (i + 1) fuel pos (prefixSet s pos) none = .ok (v, c') →
        ∃ p, IsNthDistinctPos s i p ∧ v = s p ∧ c' = ⟨p + 1, prefixSet s (p + 1)⟩ ∧
          CacheOk s (some c') := by
      intro pos hlt hl
      obtain ⟨p, h1, h2, h3, h4⟩ := loop_spec s (i + 1) fuel pos none v c' (Or.inl hlt) hl
      exact ⟨p, ⟨by omega, h2⟩, h3, h4, by subst h4; rfl⟩
    have fresh := key 0 (by simp [prefixSet])
    match cache, hc with
    | none, _ => exact fresh h
    | some c, hc =>
      simp only at h
      split at h
      · rename_i hlt
        have hc' : c.seen = prefixSet s c.pos := hc
        rw [hc'] at h hlt
        exact key c.pos hlt h
      · exact fresh h

theorem serveAll_length (s : Nat → Nat) (high fuel : Nat) (reqs : List Nat) (cache : Option Cache) :
    (serveAll s high fuel reqs cache).length = reqs.length := by
  induction reqs generalizing cache with
  | nil => simp [serveAll]
  | cons i rest ih => unfold serveAll; split <;> simp [ih]

/-- **Cache transparency for every history.**  For every sequence of requests served through one
shared cache (increasing, repeated, decreasing, jumping — any list, any length), every answer that
is returned equals the answer of a cache-less call for the same index (whenever that one returns;
`terminates` below says when it does).  `reqs.zip (serveAll …)` pairs each request with its answer;
the two lists have the same length (`serveAll_length`). -/
theorem cache_transparent (s : Nat → Nat) (high fuel fuel' : Nat) (reqs : List Nat)
    (cache : Option Cache) (hc : CacheOk s cache) :
    ∀ i v, (i, Except.ok v) ∈ reqs.zip (serveAll s high fuel reqs cache) →
      ∀ w c, getSubSeed s high fuel' i none = .ok (w, c) → v = w := by
  induction reqs generalizing cache with
  | nil => intro i v h; simp [serveAll] at h
  | cons j rest ih =>
    intro i v hmem w c hw
    unfold serveAll at hmem
    split at hmem
    · rename_i v0 c0 hget
      obtain ⟨p, hp, hv0, _, hok⟩ := subseed_eq_nth_distinct s high fuel j cache hc v0 c0 hget
      simp only [List.zip_cons_cons, List.mem_cons, Prod.mk.injEq, Except.ok.injEq] at hmem
      rcases hmem with ⟨rfl, rfl⟩ | hmem
      · obtain ⟨q, hq, hw0, _, _⟩ := subseed_eq_nth_distinct s high fuel' i none trivial w c hw
        have := hp.unique hq
        subst this; rw [hv0, hw0]
      · exact ih (some c0) hok i v hmem w c hw
    · simp only [List.zip_cons_cons, List.mem_cons, Prod.mk.injEq, reduceCtorEq, and_false,
        false_or] at hmem
      exact ih cache hc i v hmem w c hw

/-- **Distinct indices never receive the same sub seed** (any two calls, any caches). -/
theorem injective (s : Nat → Nat) (high f₁ f₂ i j : Nat) (c₁ c₂ : Option Cache)
    (h₁ : CacheOk s c₁) (h₂ : CacheOk s c₂) (a b : Nat) (ca cb : Cache)
    (ha : getSubSeed s high f₁ i c₁ = .ok (a, ca)) (hb : getSubSeed s high f₂ j c₂ = .ok (b, cb))
    (hij : i ≠ j) : a ≠ b := by
  obtain ⟨p, hp, rfl, _, _⟩ := subseed_eq_nth_distinct s high f₁ i c₁ h₁ a ca ha
  obtain ⟨q, hq, rfl, _, _⟩ := subseed_eq_nth_distinct s high f₂ j c₂ h₂ b cb hb
  intro heq
  rcases Nat.lt_or_gt_of_ne hij with h | h
  · have hlt := hp.lt_of_lt hq h
    exact hq.fresh (heq ▸ mem_prefixSet.mpr ⟨p, hlt, rfl⟩)
  · have hlt := hq.lt_of_lt hp h
    exact hp.fresh (heq ▸ mem_prefixSet.mpr ⟨q, hlt, rfl⟩)

/-- **Every derived seed lies in `[0, high)`** when the generator's values do. -/
theorem in_range (s : Nat → Nat) (high fuel i : Nat) (cache : Option Cache) (hc : CacheOk s cache)
    (hs : ∀ k, s k < high) (v : Nat) (c' : Cache)
    (h : getSubSeed s high fuel i cache = .ok (v, c')) : v < high := by
  obtain ⟨p, _, rfl, _, _⟩ := subseed_eq_nth_distinct s high fuel i cache hc v c' h
  exact hs p

/-- **An index that cannot be served is rejected, not aliased**: `i ≥ high` raises, with any cache
and leaving that cache untouched (the model returns no new cache on an error). -/
theorem index_out_of_range_rejected (s : Nat → Nat) (high fuel i : Nat) (cache : Option Cache)
    (h : high ≤ i) : getSubSeed s high fuel i cache = .error .valueError := by
  unfold getSubSeed; simp [h]

/-- With values in `[0, high)` at most `high` distinct seeds exist, so an accepted index `i < high`
is the only kind that can be served at all: if a call returns, the stream really has `i+1`
distinct values below `high`. -/
theorem served_index_lt_high (s : Nat → Nat) (high fuel i : Nat) (cache : Option Cache)
    (v : Nat) (c' : Cache) (h : getSubSeed s high fuel i cache = .ok (v, c')) : i < high := by
  unfold getSubSeed at h
  split at h
  · simp at h
  · omega

/-- **Termination / totality.**  If the stream contains `i+1` distinct values (first completed at
position `p`), a cache-less call with `p + 2` units of fuel returns. -/
theorem terminates (s : Nat → Nat) (high i p : Nat) (hi : i < high) (hp : IsNthDistinctPos s i p) :
    ∃ v c, getSubSeed s high (p + 2) i none = .ok (v, c) := by
  -- generalised loop statement
  have key : ∀ (n pos : Nat) (last : Option Nat), pos + n = p + 1 →
      ((prefixSet s pos).length < i + 1 ∨ ((prefixSet s pos).length = i + 1 ∧ last.isSome)) →
      ∃ v c, loop s (i + 1) (n + 1) pos (prefixSet s pos) last = .ok (v, c) := by
    intro n
    induction n using Nat.strongRecOn with
    | _ n ih =>
      intro pos last hpos hinv
      unfold loop
      split
      · rename_i hlen
        rcases hinv with h | ⟨_, hl⟩
        · omega
        · match last, hl with
          | some v, _ => exact ⟨v, _, rfl⟩
      · rename_i hlen
        have hlt : (prefixSet s pos).length < i + 1 := by
          rcases hinv with h | ⟨h, _⟩
          · exact h
          · exact absurd h hlen
        simp only
        obtain ⟨m, hm⟩ : ∃ m, i + 1 - (prefixSet s pos).length = m + 1 :=
          ⟨i + 1 - (prefixSet s pos).length - 1, by omega⟩
        rw [insAll_chunk, hm]
        -- the chunk never overshoots `p + 1`
        have hposle : pos ≤ p := by
          refine Nat.le_of_not_lt (fun hgt => ?_)
          have := prefixSet_length_mono s (show p + 1 ≤ pos by omega)
          rw [hp.2] at this; omega
        have hreach : (prefixSet s (pos + n)).length ≤ (prefixSet s pos).length + n :=
          prefixSet_length_add s pos n
        rw [hpos, hp.2] at hreach
        have hmn : m + 1 ≤ n := by omega
        obtain ⟨n', hn'⟩ : ∃ n', n = (m + 1) + n' := ⟨n - (m + 1), by omega⟩
        cases n' with
        | zero =>
          -- landed exactly on p + 1: next iteration returns
          have hpos' : pos + (m + 1) = p + 1 := by omega
          rw [hpos']
          have : n = m + 1 := by omega
          subst this
          unfold loop
          rw [if_pos hp.2]
          rw [chunk_getLast? _ _ _ (by omega)]
          exact ⟨_, _, rfl⟩
        | succ n' =>
          have hlt' : n' + 1 < n := by omega
          have hrec := ih (n' + 1) hlt' (pos + (m + 1)) (chunk s pos (m + 1)).getLast? (by omega)
            (Or.inl (by
              have := prefixSet_length_mono s (show pos + (m + 1) ≤ p by omega)
              rw [hp.1] at this; omega))
          obtain ⟨v, c, hvc⟩ := hrec
          refine ⟨v, c, ?_⟩
          have := loop_fuel_mono s (i + 1) (n - (n' + 1 + 1)) _ _ _ _ _ hvc
          rw [show n' + 1 + 1 + (n - (n' + 1 + 1)) = n by omega] at this
          exact this
  unfold getSubSeed
  rw [if_neg (by omega)]
  exact key (p + 1) 0 none (by omega) (Or.inl (by simp [prefixSet]))

/-! Non-vacuity: a concrete stream with collisions (3,3,1,3,2,1,0,…) meets the hypotheses. -/
private def s0 (k : Nat) : Nat := [3, 3, 1, 3, 2, 1, 0].getD k 5

example : getSubSeed s0 6 20 2 none = .ok (2, ⟨5, [3, 1, 2]⟩) := by rfl
example : IsNthDistinctPos s0 2 4 := by unfold IsNthDistinctPos; decide
example : serveAll s0 6 20 [2, 0, 3, 1, 7] none
    = [.ok 2, .ok 3, .ok 0, .ok 1, .error .valueError] := by rfl
example : CacheOk s0 (some ⟨5, [3, 1, 2]⟩) := by unfold CacheOk; decide

end ElfiVerif.SubSeed
