import ElfiVerif.Proofs.Results
import ElfiVerif.Proofs.ResultsCI

/-!
# C16 — result objects report what the sampler produced

Property theorems about `Model/Results.lean`.  `K` is any linearly ordered field; numbers of
parameters, samples, chains and warm-up lengths are arbitrary.
-/
namespace ElfiVerif.Results

variable {K : Type} [Field K] [LinearOrder K] [IsStrictOrderedRing K]

/-- **Columns in parameter-name order**: the sample's columns are exactly the listed parameters, in
that order, each with the stored output. -/
theorem columns_in_parameter_order {α : Type} (names : List Nat) (outputs : List (Nat × α))
    (hall : ∀ n ∈ names, ∃ p ∈ outputs, p.1 = n) :
    (sampleColumns names outputs).map (·.1) = names ∧
    ∀ q ∈ sampleColumns names outputs, (outputs.find? (fun p => p.1 == q.1)).map (·.2) = some q.2 :=
  columns_in_parameter_order' names outputs hall

/-- **Means are weighted averages**: `Σ wᵢ vᵢ / Σ wᵢ`, the plain mean without weights, and equal
weights give the plain mean. -/
theorem means_weighted_average (v w : List K) :
    weightedMean v (some w) = ((v.zip w).map (fun p => p.1 * p.2)).sum / w.sum ∧
    weightedMean v none = v.sum / (v.length : K) :=
  means_weighted_average' v w

theorem means_equal_weights (v : List K) (c : K) (hc : c ≠ 0) (hv : v ≠ []) :
    weightedMean v (some (List.replicate v.length c)) = weightedMean v none :=
  means_equal_weights' v c hc hv

/-- **BOLFI sample = every chain without exactly its warm-up prefix, chain by chain**: entry
`c·(N−w)+i` of the concatenation is state `w+i` of chain `c`, for chains of common length `N`. -/
theorem bolfi_index {α : Type} (chains : List (List (List α))) (N w : Nat) (hw : w ≤ N)
    (hlen : ∀ c ∈ chains, c.length = N) (c i : Nat) (hc : c < chains.length) (hi : i < N - w) :
    (bolfiConcat chains w)[c * (N - w) + i]? = (chains[c]?).bind (fun ch => ch[w + i]?) ∧
    (bolfiConcat chains w).length = chains.length * (N - w) :=
  bolfi_index' chains N w hw hlen c i hc hi

/-- **ESS is invariant under affine rescaling** `x ↦ a·x + b` (`a ≠ 0`) of all chains. -/
theorem ess_affine_invariant (chains : List (List K)) (a b : K) (ha : a ≠ 0)
    (hlen : ∀ c ∈ chains, c.length = (chains.headD []).length) :
    effSampleSize (chains.map (fun c => c.map (fun x => a * x + b))) = effSampleSize chains :=
  ess_affine_invariant' chains a b ha hlen

/-- **ESS is invariant under reordering of chains.** -/
theorem ess_chain_perm_invariant (c₁ c₂ : List (List K)) (hp : c₁.Perm c₂)
    (hlen : ∀ c ∈ c₁, c.length = (c₁.headD []).length) :
    effSampleSize c₁ = effSampleSize c₂ :=
  ess_chain_perm_invariant' c₁ c₂ hp hlen

/-- **Split R-hat (squared) is invariant under affine rescaling and under reordering of chains.** -/
theorem rhat_affine_invariant (chains : List (List K)) (a b : K) (ha : a ≠ 0)
    (hlen : ∀ c ∈ chains, c.length = (chains.headD []).length) :
    rhatSq (chains.map (fun c => c.map (fun x => a * x + b))) = rhatSq chains :=
  rhat_affine_invariant' chains a b ha hlen

theorem rhat_chain_perm_invariant (c₁ c₂ : List (List K)) (hp : c₁.Perm c₂)
    (hlen : ∀ c ∈ c₁, c.length = (c₁.headD []).length) :
    rhatSq c₁ = rhatSq c₂ :=
  rhat_chain_perm_invariant' c₁ c₂ hp hlen

/-- **Textbook form of R-hat²** (BDA3 11.4): `((n−1)/n · W + B/n) / W` with `W` the mean within-chain
variance and `B = n · var(chain means)` of the split chains. -/
theorem rhat_textbook (chains : List (List K)) :
    let s := splitChains chains
    let n : K := (((chains.headD []).length / 2 : Nat) : K)
    let W := mean (s.map var1)
    let B := n * var1 (s.map mean)
    rhatSq chains = (((n - 1) * W + B) / n) / W :=
  rhat_textbook' chains

/-- **Textbook form of the ESS**: `m·n / (1 + 2 Σ ρ̂_t)` over the leading non-negative `ρ̂_t`,
`ρ̂_t = 1 − (W − mean autocovariance_t) / var⁺`. -/
theorem ess_textbook (chains : List (List K)) :
    let n := (chains.headD []).length
    let rho := fun t => 1 - (varWithin chains - mean (chains.map (fun c => autocov c t))) / varPooled chains n
    effSampleSize chains =
      ((chains.length : K) * (n : K)) /
        (1 + 2 * (((List.range' 1 (n - 1)).map rho).takeWhile (fun t => decide ((0 : K) ≤ t))).sum) :=
  ess_textbook' chains

/-- **The 95 % interval is the pair of weighted 2.5 % / 97.5 % quantiles of exactly the stored samples**: both bounds
are stored sample values, lower ≤ upper, and each satisfies the definition of the weighted quantile (the normalised
weight of the values `≤` the bound reaches the level, the weight of the values `<` it does not exceed it) - for any
non-negative weights with a positive sum, any sorting permutation (ties in any order).  Via C13's `quantile_spec`
and `quantile_mono`. -/
theorem ci95_spec (sort : List (K × K) → List (K × K)) (hs : ElfiVerif.Stats.SortOK sort) (v w : List K)
    (hlen : v.length = w.length) (hw : ∀ a ∈ w, 0 ≤ a) (hsum : 0 < w.sum) :
    ∃ lo hi, ci95 sort v (some w) = (some lo, some hi) ∧ lo ∈ v ∧ hi ∈ v ∧ lo ≤ hi ∧
      (25 / 1000 ≤ ElfiVerif.Stats.wLE v w lo / w.sum ∧ ElfiVerif.Stats.wLT v w lo / w.sum ≤ 25 / 1000) ∧
      (975 / 1000 ≤ ElfiVerif.Stats.wLE v w hi / w.sum ∧ ElfiVerif.Stats.wLT v w hi / w.sum ≤ 975 / 1000) :=
  ci95_spec' sort hs v w hlen hw hsum

end ElfiVerif.Results
