import ElfiVerif.Proofs.Adjust

/-!
# C17 — regression adjustment and model comparison equal their formulas

Property theorems about `Model/Adjust.lean`; `K` any field (ordered where comparisons occur), any
numbers of rows, summaries, parameters and models.
-/
namespace ElfiVerif.Adjust

variable {K : Type} [Field K]

/-- **Adjustment formula**: row `i` of the adjusted parameter is the accepted value minus the slope
times (simulated − observed summaries) of the SAME row. -/
theorem adjust_formula (theta : List K) (summaries : List (List K)) (observed beta : List K)
    (hlen : theta.length = summaries.length) (i : Nat) (hi : i < theta.length) :
    (adjust theta (regressors summaries observed) beta)[i]? =
      some (theta[i] - dot (List.zipWith (· - ·) (summaries[i]'(hlen ▸ hi)) observed) beta) ∧
    (adjust theta (regressors summaries observed) beta).length = theta.length :=
  adjust_formula' theta summaries observed beta hlen i hi

/-- **A draw whose simulated summaries equal the observed ones is unchanged.** -/
theorem fixed_point (t : K) (row observed beta : List K) (h : row = observed) :
    adjust [t] (regressors [row] observed) beta = [t] :=
  fixed_point' t row observed beta h

/-- **Exactly the finite rows are used**: a row is kept for a parameter iff all its regressors and
that parameter's value are finite; the kept values are the values of those rows, in order. -/
theorem mask_exact (X : List (List (FV K))) (theta : List (FV K)) (hlen : X.length = theta.length) :
    (finiteMask X theta).length = theta.length ∧
    (∀ i (h₁ : i < (finiteMask X theta).length) (h₂ : i < X.length) (h₃ : i < theta.length),
      (finiteMask X theta)[i] = true ↔ ((∀ v ∈ X[i], v.isFinite = true) ∧ theta[i].isFinite = true)) ∧
    ∀ t ∈ select theta (finiteMask X theta), t.isFinite = true :=
  mask_exact' X theta hlen

/-- each parameter has its own mask: a non-finite value of ANOTHER parameter does not remove a row -/
theorem mask_per_parameter (X : List (List (FV K))) (t₁ t₂ : List (FV K)) (i : Nat)
    (h : ∀ j, j ≠ i → t₁[j]? = t₂[j]?) (hl : t₁.length = t₂.length) (k : Nat) (hk : k ≠ i) :
    (finiteMask X t₁)[k]? = (finiteMask X t₂)[k]? :=
  mask_per_parameter' X t₁ t₂ i h hl k hk

/-- **Affine re-expression of the summaries** `S ↦ S A + 1 cᵀ` (applied to simulated and observed
alike, `A` invertible): if `(α, β)` satisfies the least-squares normal equations for the regressors
`X`, then `(α, A⁻¹ β)` satisfies them for the re-expressed regressors `X A`, and the fitted
correction `X A (A⁻¹ β) = X β` is the same — so the adjusted values are unaffected (whenever the
minimiser is unique, which sklearn returns). -/
theorem affine_invariant {n k : Nat} (X : Matrix (Fin n) (Fin k) K) (A Ainv : Matrix (Fin k) (Fin k) K)
    (hA : A * Ainv = 1) (y : Fin n → K) (α : K) (β : Fin k → K)
    (hne : NormalEq X y α β) :
    NormalEq (X * A) y α (Ainv.mulVec β) ∧ (X * A).mulVec (Ainv.mulVec β) = X.mulVec β :=
  affine_invariant' X A Ainv hA y α β hne

/-- the shift `c` cancels in the regressors: `(S + 1cᵀ) − (s_obs + c) = S − s_obs` -/
theorem shift_cancels (summaries : List (List K)) (observed c : List K)
    (hrow : ∀ r ∈ summaries, r.length = observed.length) (hc : c.length = observed.length) :
    regressors (summaries.map (fun r => List.zipWith (· + ·) r c)) (List.zipWith (· + ·) observed c) =
      regressors summaries observed :=
  shift_cancels' summaries observed c hrow hc

section
variable {F : Type} [Field F] [LinearOrder F] [IsStrictOrderedRing F]

/-- **Model probabilities sum to one** (when some model has a positive share). -/
theorem compare_sums_to_one (sort : List (F × Nat) → List (F × Nat)) (ms : List (ModelSample F))
    (priors : Option (List F)) (hpos : (compareModelsRaw sort ms priors).sum ≠ 0) :
    (compareModels sort ms priors).sum = 1 :=
  compare_sums_to_one' sort ms priors hpos

/-- **Proportional to (share among the jointly smallest) / n_sim × prior weight.** -/
theorem compare_proportional (sort : List (F × Nat) → List (F × Nat)) (ms : List (ModelSample F))
    (priors : Option (List F)) (i : Nat) (hi : i < ms.length) :
    (compareModels sort ms priors)[i]? =
      some ((compareModelsRaw sort ms priors).getD i 0 / (compareModelsRaw sort ms priors).sum) ∧
    (compareModelsRaw sort ms priors)[i]? = some
      ((((((sort (tagged ms)).take (nMin ms)).filter (fun t => t.2 == i)).length : F) / ((ms[i]).nSim : F)) *
        (match priors with | none => 1 | some pr => pr.getD i 1)) :=
  compare_proportional' sort ms priors i hi

end

end ElfiVerif.Adjust
