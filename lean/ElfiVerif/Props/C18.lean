import ElfiVerif.Proofs.Tools

/-!
# C18 — vectorize and external_operation behave as per-row application

Property theorems about `Model/Tools.lean`: any arity, any constant mask, any mixture of array and
non-array inputs, any batch length, any wrapped operation.
-/
namespace ElfiVerif.Tools

variable {V R : Type}

/-- **Length**: the result has one entry per row; the batch length is the given `batch_size`, else
the length of the non-constant array inputs, else 1. -/
theorem vectorize_length (op : List (Arg V) → Nat → R) (consts : List Nat) (inputs : List (Inp V))
    (bs : Option Nat) (out : List R) (h : runVectorized op consts inputs bs = .ok out) :
    (∀ n, bs = some n → out.length = n) ∧
    (∀ k rows, inputs[k]? = some (Inp.arr rows) → k ∉ consts → out.length = rows.length) ∧
    (bs = none → (∀ k rows, inputs[k]? = some (Inp.arr rows) → k ∈ consts) → out.length = 1) :=
  vectorize_length' op consts inputs bs out h

/-- **Row-wise application**: entry `i` of the result is the operation applied to row `i` of every
non-constant array input, with masked inputs and non-array inputs passed through unchanged, and
`index_in_batch = i`. -/
theorem vectorize_rowwise (op : List (Arg V) → Nat → R) (consts : List Nat) (inputs : List (Inp V))
    (bs : Option Nat) (out : List R) (h : runVectorized op consts inputs bs = .ok out)
    (i : Nat) (hi : i < out.length) :
    ∃ args : List (Arg V), out[i] = op args i ∧ args.length = inputs.length ∧
      ∀ k (hk : k < inputs.length) (hk' : k < args.length),
        (k ∈ consts → args[k] = Arg.whole inputs[k]) ∧
        (∀ v, inputs[k] = Inp.scalar v → args[k] = Arg.whole inputs[k]) ∧
        (∀ rows, inputs[k] = Inp.arr rows → k ∉ consts →
            ∃ hlen : i < rows.length, args[k] = Arg.row rows[i]) :=
  vectorize_rowwise' op consts inputs bs out h i hi

/-- **Mismatching batch lengths are rejected** (two non-constant array inputs, or `batch_size` and
an array input). -/
theorem length_mismatch_rejected (op : List (Arg V) → Nat → R) (consts : List Nat) (inputs : List (Inp V))
    (bs : Option Nat) (k₁ k₂ : Nat) (r₁ r₂ : List V)
    (h₁ : inputs[k₁]? = some (Inp.arr r₁)) (h₂ : inputs[k₂]? = some (Inp.arr r₂))
    (hc₁ : k₁ ∉ consts) (hc₂ : k₂ ∉ consts) (hne : r₁.length ≠ r₂.length) :
    runVectorized op consts inputs bs = .error .valueError :=
  length_mismatch_rejected' op consts inputs bs k₁ k₂ r₁ r₂ h₁ h₂ hc₁ hc₂ hne

theorem batch_size_mismatch_rejected (op : List (Arg V) → Nat → R) (consts : List Nat) (inputs : List (Inp V))
    (n k : Nat) (rows : List V) (h : inputs[k]? = some (Inp.arr rows)) (hc : k ∉ consts)
    (hne : n ≠ rows.length) :
    runVectorized op consts inputs (some n) = .error .valueError :=
  batch_size_mismatch_rejected' op consts inputs n k rows h hc hne

/-- a call never depends on earlier calls: the model is a pure function of its arguments (the
    harness checks this on the real wrapper by re-using one wrapped callable across calls) -/
theorem vectorize_stateless (op : List (Arg V) → Nat → R) (consts : List Nat) (i₁ i₂ : List (Inp V))
    (b₁ b₂ : Option Nat) :
    (runVectorized op consts i₁ b₁, runVectorized op consts i₂ b₂).2 = runVectorized op consts i₂ b₂ :=
  rfl

/-- **The external seed differs between rows of a batch** whenever `index_in_batch` reaches
`prepare_seed` (the node declares `uses_meta`): corollary of C15 `injective`. -/
theorem external_seed_distinct_rows (s : Nat → Nat) (f₁ f₂ i j a b : Nat)
    (ha : externalSeed s f₁ (some i) = .ok a) (hb : externalSeed s f₂ (some j) = .ok b) (hij : i ≠ j) :
    a ≠ b :=
  external_seed_distinct_rows' s f₁ f₂ i j a b ha hb hij

/-- without `meta` every row is given index 0, hence THE SAME seed (known finding: a vectorised
external operation on a node that does not declare `uses_meta`). -/
theorem external_seed_same_without_meta (s : Nat → Nat) (fuel : Nat) :
    externalSeed s fuel none = externalSeed s fuel (some 0) :=
  rfl

end ElfiVerif.Tools
