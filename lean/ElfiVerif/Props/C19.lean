import ElfiVerif.Proofs.Romc

/-!
# C19 — ROMC regions: samples lie inside, density is 1/volume inside and 0 outside, weights follow

Property theorems about `Model/Romc.lean`.  `K` is any linearly ordered field; dimensions, rotations,
centres, limits, objectives, step sizes and repetition limits are arbitrary.
-/
namespace ElfiVerif.Romc

variable {K : Type} [Field K] [LinearOrder K] [IsStrictOrderedRing K]

/-- **Every drawn point is contained in the region**: a point within the limits (own coordinates),
mapped by `R θ + c`, passes `contains` — for any rotation whose stored inverse really inverts it
(`hinv`; for matrices this is `R⁻¹ R = 1`, see `inverse_law_of_matrix`). -/
theorem sample_contained (b : Box K) (θ : List K)
    (hinv : vadd (matVec b.rotationInv (vadd (matVec b.rotation θ) b.center))
              (matVec b.rotationInv (vneg b.center)) = θ)
    (hθ : withinLimits b.limits θ = true) :
    b.contains (b.sampleMap θ) = true :=
  sample_contained' b θ hinv hθ

/-- conversely a contained point is the image of a point within the limits (`R R⁻¹ = 1`) -/
theorem contained_is_image (b : Box K) (p : List K) (h : b.contains p = true)
    (hinv : vadd (matVec b.rotation (b.local p)) b.center = p) :
    ∃ θ, withinLimits b.limits θ = true ∧ b.sampleMap θ = p :=
  contained_is_image' b p h hinv

/-- the inverse law holds for genuine matrices: if `Rinv * R = 1` then
`Rinv (R θ + c) + Rinv (−c) = θ` -/
theorem inverse_law_of_matrix {n : Nat} (R Rinv : Matrix (Fin n) (Fin n) K) (h : Rinv * R = 1)
    (θ c : Fin n → K) :
    Rinv.mulVec (R.mulVec θ + c) + Rinv.mulVec (-c) = θ :=
  inverse_law_of_matrix' R Rinv h θ c

/-- **Secured limits have positive widths**, so the volume is positive: given `lo ≤ 0 ≤ hi` (the
code asserts it) and `eps > 0`, `half = eps/2`, `rel ≥ 0`. -/
theorem secure_limits_pos (rel eps : K) (hrel : 0 ≤ rel) (heps : 0 < eps) (limits : List (K × K))
    (hl : ∀ l ∈ limits, l.1 ≤ 0 ∧ 0 ≤ l.2) :
    ∀ l ∈ secureLimits rel eps (eps / 2) limits, l.1 < l.2 :=
  secure_limits_pos' rel eps hrel heps limits hl

theorem volume_pos (b : Box K) (h : ∀ l ∈ b.limits, l.1 < l.2) : 0 < b.volume :=
  volume_pos' b h

/-- non-degenerate limits are left alone -/
theorem secure_limits_id (rel eps half : K) (limits : List (K × K))
    (h : ∀ l ∈ limits, isClose rel eps l.1 l.2 = false) :
    secureLimits rel eps half limits = limits :=
  secure_limits_id' rel eps half limits h

/-- **Density = 1/volume inside, 0 outside.** -/
theorem pdf_values (b : Box K) (p : List K) :
    (b.contains p = true → b.pdf p = 1 / b.volume) ∧ (b.contains p = false → b.pdf p = 0) :=
  pdf_values' b p

/-- **The line search returns a positive offset.** -/
theorem linesearch_positive (good : K → Bool) (k : Nat) (eta : K) (repLim : Nat) (heta : 0 < eta) :
    0 < lineSearch good k eta repLim :=
  linesearch_positive' good k eta repLim heta

/-- **The offset reached was probed below the threshold**: if the starting point is below the
threshold, the loop ends on a non-negative offset at which the objective was evaluated and found
below the threshold; the returned value is that offset, or — only when it is 0, i.e. no step could
be taken — the final resolution `eta'`. -/
theorem linesearch_result_good (good : K → Bool) (k : Nat) (eta : K) (repLim : Nat) (heta : 0 < eta)
    (h0 : good 0 = true) :
    let r := rounds good repLim k 0 eta
    0 ≤ r.1 ∧ good r.1 = true ∧ 0 < r.2 ∧
    lineSearch good k eta repLim = (if r.1 ≤ 0 then r.2 else r.1) :=
  linesearch_result_good' good k eta repLim heta h0

/-- **Posterior counting**: the indicator sum is the number of problems whose distance is within
the cut-off (and, with local surrogates, whose region contains the point). -/
theorem sum_indicators_count (dists : List K) (eps : K) :
    sumIndicators dists eps = (dists.filter (fun d => decide (d ≤ eps))).length :=
  sum_indicators_count' dists eps

theorem sum_region_indicators_count (items : List (Bool × K)) (eps : K) :
    sumRegionIndicators items eps =
      (items.filter (fun it => it.1 && decide (it.2 ≤ eps))).length :=
  sum_region_indicators_count' items eps

/-- **Sample weight** = distance-below-cut-off indicator × prior / region density, `0` if the
region density is `0`. -/
theorem weight_formula (dist eps prior q : K) :
    (0 < q → dist < eps → weight dist eps prior q = prior / q) ∧
    (0 < q → ¬ dist < eps → weight dist eps prior q = 0) ∧
    (¬ 0 < q → weight dist eps prior q = 0) :=
  weight_formula' dist eps prior q

end ElfiVerif.Romc
