import ElfiVerif.Proofs.Bsl

/-!
# C20 — BSL: the synthetic likelihood and its Metropolis–Hastings step are the stated ones

Property theorems about `Model/Bsl.lean`: the transform and its Jacobian over `ℝ` (all four bound
types), the acceptance probability as a change-of-variables density ratio, the chain's arrays under
EVERY stream of proposals / likelihood estimates / uniforms / gamma-sampler values, and the algebra of
the unbiased estimator.
-/
namespace ElfiVerif.Bsl

open Real

/-! ### transform and back-transform -/

/-- **the back-transform inverts the transform** on the open support of each bound type -/
theorem back_fwd (t : BType) (a b x : ℝ)
    (hx : match t with
      | .two => a < x ∧ x < b
      | .upper => x < b
      | .lower => a < x
      | .free => True) :
    back Real.exp t a b (fwd Real.log t a b x) = x :=
  back_fwd' t a b x hx

/-- **and the transform inverts the back-transform** everywhere -/
theorem fwd_back (t : BType) (a b y : ℝ) (hab : t = .two → a < b) :
    fwd Real.log t a b (back Real.exp t a b y) = y :=
  fwd_back' t a b y hab

/-- every back-transformed value lies strictly inside the bounds -/
theorem back_in_support (t : BType) (a b y : ℝ) (hab : t = .two → a < b) :
    match t with
    | .two => a < back Real.exp t a b y ∧ back Real.exp t a b y < b
    | .upper => back Real.exp t a b y < b
    | .lower => a < back Real.exp t a b y
    | .free => True :=
  back_in_support' t a b y hab

/-- **the (repaired) log-Jacobian is the log of the derivative of the back-transform** -/
theorem logJac_is_derivative (t : BType) (a b y : ℝ) (hab : t = .two → a < b) :
    HasDerivAt (back Real.exp t a b) (Real.exp (logJac Real.exp Real.log true t a b y)) y :=
  logJac_is_derivative' t a b y hab

/-- the original code's value for the upper-bounded type is not that derivative (at `y = 1`,
`b = 0`: derivative `e⁻¹`, coded `e¹`) -/
theorem logJac_original_upper_wrong :
    ¬ HasDerivAt (back Real.exp .upper 0 0) (Real.exp (logJac Real.exp Real.log false .upper 0 0 1)) 1 :=
  logJac_original_upper_wrong'

/-! ### acceptance probability -/

/-- the clamp at ±700 does not change the acceptance probability `min(1, e^r)` above −700, and below
it both are at most `e^{−700}` -/
theorem mh_clamp_harmless (r : ℝ) :
    (-700 ≤ r → min 1 (Real.exp (clamp700 r)) = min 1 (Real.exp r)) ∧
    (r < -700 → min 1 (Real.exp (clamp700 r)) ≤ Real.exp (-700) ∧ min 1 (Real.exp r) ≤ Real.exp (-700)) :=
  mh_clamp_harmless' r

/-- **the acceptance ratio is the posterior ratio times the ratio of the Jacobians** (inside the
clamp range): `exp(mhLogRatio) = (e^{cur}·e^{jCur}) / (e^{prev}·e^{jPrev})` -/
theorem mh_ratio_change_of_variables (cur prev jCur jPrev : ℝ)
    (h : -700 ≤ (jCur - jPrev) + cur - prev ∧ (jCur - jPrev) + cur - prev ≤ 700) :
    Real.exp (mhLogRatio cur prev jCur jPrev) =
      (Real.exp cur * Real.exp jCur) / (Real.exp prev * Real.exp jPrev) :=
  mh_ratio_change_of_variables' cur prev jCur jPrev h

/-- `mhAccept` is `u < min(1, e^r)` -/
theorem mh_accept_iff (r u : ℝ) : mhAccept Real.exp r u = true ↔ u < min 1 (Real.exp r) :=
  mh_accept_iff' r u

/-! ### the chain's arrays -/

variable {P D K U : Type}

/-- **`_init_round` keeps every stored log prior consistent with its parameter**, never turns a
proposal outside the prior support into a candidate (it is rejected WITHOUT simulating: the slot gets a
copy of the current state), and a returned candidate has finite log prior.  With a gamma-sampler value
the current state's log posterior becomes that likelihood plus the current state's log prior. -/
theorem init_round_spec (T : Target P D K U) (cap : Nat) (es : List (Entry P K))
    (script : List (Option K × D)) (hg : Good T es) :
    let r := initRound T cap es script
    Good T r.1 ∧ es.length ≤ r.1.length ∧
    (r.2.2 = true → ∃ pre c, r.1 = pre ++ [c] ∧ T.isFinite c.logprior = true ∧ pre.length ≥ es.length ∧
        (∀ e ∈ pre, ∃ e₀ ∈ es, e.param = e₀.param)) ∧
    (r.2.2 = false → ∀ e ∈ r.1, ∃ e₀ ∈ es, e.param = e₀.param) :=
  init_round_spec' T cap es script hg

/-- with the misspecification-adjusted likelihoods the current state is re-scored with ITS OWN prior -/
theorem init_round_gamma (T : Target P D K U) (cap : Nat) (pre : List (Entry P K)) (prev : Entry P K)
    (ll : K) (d : D) (rest : List (Option K × D)) (hcap : pre.length + 1 < cap)
    (hg : Good T (pre ++ [prev])) (hfin : T.isFinite (T.logprior (T.propose prev.param d)) = true) :
    initRound T cap (pre ++ [prev]) ((some ll, d) :: rest) =
      (pre ++ [{ prev with logpost := T.add ll (T.logprior prev.param) },
               ⟨T.propose prev.param d, T.logprior (T.propose prev.param d), T.zero⟩], rest, true) :=
  init_round_gamma' T cap pre prev ll d rest hcap hg hfin

/-- **`_process_simulated` decides with the stated ratio and restores ALL arrays on rejection**: for
consistent arrays ending in the current state `p` and the candidate `c`, the result ends in
`c` with log posterior `ll + prior(c)` if `u` is accepted against
`ratio (ll + prior c) (logpost p) (J c) (J p)`, and in a full copy of `p` otherwise. -/
theorem process_simulated_spec (T : Target P D K U) (pre : List (Entry P K)) (p c : Entry P K) (ll : K)
    (u : U) (hg : Good T (pre ++ [p, c])) :
    let c' : Entry P K := ⟨c.param, T.logprior c.param, T.add ll (T.logprior c.param)⟩
    processSimulated T (pre ++ [p, c]) ll u =
      (if T.accept (T.ratio c'.logpost p.logpost (T.logJ c.param) (T.logJ p.param)) u
       then pre ++ [p, c'] else pre ++ [p, p]) ∧
    Good T (processSimulated T (pre ++ [p, c]) ll u) :=
  process_simulated_spec' T pre p c ll u hg

/-- the invariant holds along every history of rounds -/
theorem chain_good (T : Target P D K U) (cap : Nat) (es : List (Entry P K)) (hg : Good T es)
    (rounds : List (List (Option K × D) × K × U)) :
    Good T (rounds.foldl (fun acc r => (round T cap acc r.1 r.2.1 r.2.2).1) es) :=
  chain_good' T cap es hg rounds

/-! ### the unbiased estimator -/

/-- `log|(n−1)Σ| = d·log(n−1) + log|Σ|` — the term the original code computed with `log(n−1)` -/
theorem logdet_smul {d : Nat} (A : Matrix (Fin d) (Fin d) ℝ) (c : ℝ) (hc : 0 < c) (hA : 0 < A.det) :
    Real.log ((c • A).det) = d * Real.log c + Real.log A.det :=
  logdet_smul' A c hc hA

/-- **the (repaired) coded value is the log of Ghurye & Olkin's estimator**
`(2π)^{−d/2} · c(d,n−2)/c(d,n−1) · (1−1/n)^{−d/2} · |M|^{−(n−d−2)/2} · |ψ|^{(n−d−3)/2}`, `M = (n−1)Σ` -/
theorem go_is_published_formula {d : Nat} (n wconDiff : ℝ) (Sigma Psi : Matrix (Fin d) (Fin d) ℝ)
    (hn : 1 < n) (hS : 0 < Sigma.det) (hP : 0 < Psi.det) :
    Real.exp (goLogLik Real.log true (Real.log (2 * π)) d n wconDiff (Real.log Sigma.det) (Real.log Psi.det)) =
      (2 * π) ^ (-(d : ℝ) / 2) * Real.exp wconDiff * (1 - 1 / n) ^ (-(d : ℝ) / 2) *
        (((n - 1) • Sigma).det) ^ (-(n - d - 2) / 2) * (Psi.det) ^ ((n - d - 3) / 2) :=
  go_is_published_formula' n wconDiff Sigma Psi hn hS hP

/-- the original term differs as soon as `d ≥ 2` (here `d = 2`, `n = 10`, unit determinants) -/
theorem go_original_differs :
    goLogLik Real.log false 0 2 10 0 0 0 ≠ goLogLik Real.log true 0 2 10 0 0 0 :=
  go_original_differs'

/-- a multivariate normal log density from its pieces: `−½(d·log 2π + log|Σ| + q)` -/
theorem mvn_log_pdf_exp (d : Nat) (logdet q : ℝ) :
    Real.exp (mvnLogPdf (Real.log (2 * π)) d logdet q) =
      (2 * π) ^ (-(d : ℝ) / 2) * Real.exp (-logdet / 2) * Real.exp (-q / 2) :=
  mvn_log_pdf_exp' d logdet q

end ElfiVerif.Bsl
