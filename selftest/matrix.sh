#!/bin/bash
# usage: selftest/matrix.sh "<seeds>" [jobs] [pattern]  — every mutant (selftest/mutants + seeded/*/patch) x seeds at quick tier, in parallel;
# prints one line per (mutant, seed): CAUGHT(failing-input) / CAUGHT(no-failing-input-found) / MISSED / PATCH-FAILED
seeds=${1:-"0 1 2"}; jobs=${2:-8}; pat=${3:-.}
cd /verif
list=$(mktemp)
for m in selftest/mutants/*.patch; do p=$(basename $m | cut -d- -f1); for s in $seeds; do echo "$m $p $s"; done; done | grep -E "$pat" > $list
for d in seeded/C*/; do p=$(basename $d | cut -c1-3); f=$d/patch_on_fixed_tree.diff; [ -f $f ] || f=$d/patch.diff; for s in $seeds; do echo "$f $p $s"; done; done | grep -E "$pat" >> $list
cat $list | xargs -P $jobs -L 1 bash -c 'out=$(VERIF_SEED=$2 timeout 1500 selftest/run_mutant.sh $0 $1 quick 2>&1); rc=$?; k=$(echo "$out" | grep -o "kind=[a-z-]*" | head -1); if echo "$out" | grep -q PATCH-FAILED; then v=PATCH-FAILED; elif [ $rc -eq 1 ]; then v="CAUGHT($k)"; elif [ $rc -eq 0 ]; then v=MISSED; else v="RC$rc"; fi; echo "$v $1 seed=$2 $(echo $0 | sed "s#selftest/mutants/##; s#^seeded/##")"'
rm -f $list
