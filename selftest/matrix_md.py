#!/usr/bin/env python3
"""selftest/matrix_md.py <matrix.log> : writes selftest/MATRIX.md from the output of selftest/matrix.sh"""
import collections, os, re, sys
here = os.path.dirname(os.path.abspath(__file__))
rows = collections.defaultdict(dict)
for l in open(sys.argv[1]):
    m = re.match(r'(\S+) (C\d\d) seed=(\d+) (\S+)', l)
    if m:
        v = m.group(1).replace('CAUGHT(kind=', '').replace(')', '')
        rows[(m.group(2), m.group(4))][int(m.group(3))] = v
seeds = sorted({s for r in rows.values() for s in r})
out = ['# Mutation matrix (quick tier)', '',
       'Produced by `selftest/matrix.sh "%s"`: every patch of `selftest/mutants/` and every seeded change (`patch.diff` /'
       ' `patch_on_fixed_tree.diff` of `seeded/<id>/`) applied to a scratch copy of `/repo` HEAD, the property\'s quick check run with each seed.' % ' '.join(map(str, seeds)),
       '`failing-input` = the check exhibited an input on the real code on which the property fails; `no-failing-input-found` = only the '
       'correspondence / proof side broke (reported as a violation, as the brief requires); `MISSED` = exit 0.', '',
       '| property | change | ' + ' | '.join('seed %d' % s for s in seeds) + ' |', '|---|---|' + '---|' * len(seeds)]
tot = collections.Counter()
for (p, name), r in sorted(rows.items()):
    out.append('| %s | %s | %s |' % (p, name, ' | '.join(r.get(s, '-') for s in seeds)))
    for s in seeds:
        tot[r.get(s, '-')] += 1
out += ['', '## Summary', '', '| verdict | runs |', '|---|---|'] + ['| %s | %d |' % kv for kv in sorted(tot.items())]
out += ['', '## Notes', '',
        '* `*-unfix-*` patches re-introduce a defect that was repaired in /repo; they must be caught (and are).',
        '* Removed as behaviourally equivalent (the property still holds on the changed code, so a silent check is the right answer): '
        '`C05-add-batch-overwrites` (re-storing batch 0 with identical values), `C11-start-points-unclipped` (L-BFGS-B clips its start point itself), '
        'the first versions of two C13 boundary mutants (replaced).',
        '* `C09-nuts-accept-invalid` changes the sub-tree choice only with probability 1e-9: no realistic failing input exists; the tree replay (correspondence) still notices the changed code.',
        '* `C06-append-writes-header-first` is harmless under the kill model (header and data sit in the same user-space buffer); only the file-event trace differs.']
open(os.path.join(here, 'MATRIX.md'), 'w').write('\n'.join(out) + '\n')
print('\n'.join(out[-14:]))
