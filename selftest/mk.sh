#!/bin/bash
# usage: selftest/mk.sh <name> <file-in-repo> <python-expr old> <new>   (exact single string replacement)
set -e
name=$1; file=$2; old=$3; new=$4
d=$(mktemp -d /tmp/mk-XXXXXX); trap 'rm -rf $d' EXIT
mkdir -p $d/a/$(dirname $file) $d/b/$(dirname $file)
git -C /repo show HEAD:$file > $d/a/$file
OLD="$old" NEW="$new" python3 - "$d/a/$file" "$d/b/$file" <<'PY'
import os,sys
t=open(sys.argv[1]).read(); old=os.environ['OLD']; new=os.environ['NEW']
assert t.count(old)==1, 'old string occurs %d times' % t.count(old)
open(sys.argv[2],'w').write(t.replace(old,new))
PY
(cd $d && diff -u a/$file b/$file > /verif/selftest/mutants/$name.patch || true)
echo "wrote selftest/mutants/$name.patch ($(wc -l < /verif/selftest/mutants/$name.patch) lines)"
