#!/bin/bash
# usage: selftest/run_mutant.sh <patch-file> <Cxx> [tier]
# Applies the patch to a scratch copy of /repo (outside /repo and /verif), runs the check against
# it via VERIF_REPO, prints the verdict, removes the copy.  Evidence of such runs is discarded.
set -u
patch=$(realpath "$1"); prop=$2; tier=${3:-quick}
scratch=$(mktemp -d /tmp/elfi-mut-XXXXXX)
trap 'rm -rf "$scratch"' EXIT
git -C /repo archive HEAD | tar -x -C "$scratch"
( cd "$scratch" && git init -q . 2>/dev/null && git apply --whitespace=nowarn "$patch" ) || { echo "PATCH-FAILED $patch"; exit 3; }
cd /verif

VERIF_REPO="$scratch" ./check "$prop" --tier "$tier" > "$scratch/out.txt" 2>&1
rc=$?

grep -E "VIOLATION|KNOWN-FINDING|INFRA|ok tier|FAIL tier" "$scratch/out.txt" | head -5
v=$(grep -o 'replay=[^ ]*' "$scratch/out.txt" | head -1 | cut -d= -f2)
[ -n "$v" ] && python3 -c "
import json,sys
b=json.load(open('/verif/$v')); print('   kind=%s what=%s' % (b['kind'], str(b.get('what') or b.get('broken'))[:200]))"
echo "exit=$rc  ($(basename $patch) on $prop)"
exit $rc
