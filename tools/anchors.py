#!/usr/bin/env python3
"""Fingerprints of the source the models were last validated against.

`tools/anchors.py --update` records, for every module under <repo>/elfi, the sha1 of its comment-free abstract
syntax (ast.dump) in harness/anchors.json - to be re-run (and committed) whenever /repo's HEAD changes by a `fix:`
commit.  Every check run compares the tree it is about to test with these fingerprints (`drift(repo)`): modules
whose syntax differs mean "the code is no longer the text the model was written against", which is never a verdict
by itself but makes the quick tier explore a multiple of its usual number of generated cases (common.Ctx.budget)
and is recorded in the evidence (`coverage.source_drift`)."""
import ast
import hashlib
import json
import os
import sys

HERE = os.path.dirname(os.path.dirname(os.path.abspath(__file__)))
PATH = os.path.join(HERE, 'harness', 'anchors.json')


def fingerprints(repo):
    out = {}
    root = os.path.join(repo, 'elfi')
    for d, _, files in os.walk(root):
        for f in sorted(files):
            if not f.endswith('.py'):
                continue
            p = os.path.join(d, f)
            rel = os.path.relpath(p, repo)
            try:
                src = open(p, encoding='utf-8').read()
                out[rel] = hashlib.sha1(ast.dump(ast.parse(src)).encode()).hexdigest()
            except (SyntaxError, UnicodeDecodeError, OSError) as e:
                out[rel] = 'unparsable:' + type(e).__name__
    return out


def drift(repo):
    """sorted list of modules whose syntax differs from the recorded fingerprints (added / removed ones included)"""
    try:
        body = json.load(open(PATH))
        rec = body['modules']
    except (OSError, ValueError, KeyError):
        return []
    if body.get('python') != '%d.%d' % sys.version_info[:2]:
        return []          # ast.dump is interpreter-specific: fingerprints of another version say nothing
    now = fingerprints(repo)
    return sorted(k for k in set(rec) | set(now) if rec.get(k) != now.get(k))


if __name__ == '__main__':
    repo = os.environ.get('VERIF_REPO', '/repo')
    if '--update' in sys.argv:
        import subprocess
        head = subprocess.run(['git', '-C', repo, 'rev-parse', 'HEAD'], capture_output=True, text=True).stdout.strip()
        json.dump(dict(repo_head=head, python='%d.%d' % sys.version_info[:2], modules=fingerprints(repo)), open(PATH, 'w'), indent=1, sort_keys=True)
        print('recorded %d modules at %s' % (len(fingerprints(repo)), head))
    else:
        print(json.dumps(drift(repo), indent=1))
