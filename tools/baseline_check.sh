#!/bin/bash
# runs the repository's test-suite on /repo's working tree and lists baseline tests that no longer pass
export OMP_NUM_THREADS=1 OPENBLAS_NUM_THREADS=1 MKL_NUM_THREADS=1
out=${1:-/tmp/baseline_check}
mkdir -p $out
cd /repo && timeout 3400 /venv/bin/python -m pytest -q -p no:cacheprovider --timeout=900 --continue-on-collection-errors -n 6 --junitxml=$out/junit.xml > $out/pytest.log 2>&1
python3 - "$out/junit.xml" <<'PY'
import json, sys, xml.etree.ElementTree as ET
base = set(json.load(open('/root/.vp/BASELINE.json'))['stable_pass'])
passed = set()
for tc in ET.parse(sys.argv[1]).getroot().iter('testcase'):
    if not any(ch.tag in ('failure', 'error', 'skipped') for ch in tc):
        passed.add('%s::%s' % (tc.get('classname'), tc.get('name')))
print(json.dumps(dict(baseline_passed=len(base & passed), missing=sorted(base - passed), head=open('/repo/.git/HEAD').read().strip())))
PY
