#!/usr/bin/env python3
"""mk_skeleton.py <Props file> <Proofs file> : append a `sorry` skeleton of every `theorem X ... := X' args`
of the Props file (statement copied, name primed) to the Proofs file (which must already hold header + defs)."""
import re, sys
src = open(sys.argv[1]).read()
body = src[src.index('\nnamespace'):]
parts = re.split(r'\n(?=/--|theorem )', body)
out = []
for p in parts:
    m = re.search(r"theorem (\w+)(.*?):=\s*\n?\s*(\w+')[^\n]*", p, re.S)
    if not m:
        continue
    out.append("theorem %s%s:= by\n  sorry\n" % (m.group(3), m.group(2)))
t = open(sys.argv[2]).read()
marker = re.search(r'\nend [\w.]+\s*$', t)
t = t[:marker.start()] + '\n' + '\n'.join(out) + t[marker.start():]
open(sys.argv[2], 'w').write(t)
print('added', len(out), 'skeleton theorems')
