#!/bin/bash
# runs every claimed quick check with several seeds on the unchanged tree; prints alarms
cd /verif
out=${1:-/tmp/seed_sweep.log}; : > $out
for id in $(python3 -c "import json;print(' '.join(c['property_id'] for c in json.load(open('MANIFEST.json'))['checks']))"); do
  for s in ${SEEDS:-1 2 3 4}; do
    cp evidence/$id.json /tmp/.ev-sweep-$id.json 2>/dev/null
    r=$(VERIF_SEED=$s timeout ${TMO:-900} ./check $id --tier ${TIER:-quick} 2>&1 | grep -a -E "VIOLATION|INFRA|ok tier|FAIL tier" | tr '\n' ' ')
    echo "$id seed=$s rc=$? $r" >> $out
    mv -f /tmp/.ev-sweep-$id.json evidence/$id.json 2>/dev/null
  done
done
echo DONE >> $out
