#!/usr/bin/env python3
"""Regenerates MANIFEST.json from harness/registry.json (claimed checks) + properties.jsonl."""
import json, os
here = os.path.dirname(os.path.abspath(__file__))
reg = json.load(open(os.path.join(here, 'harness', 'registry.json')))
props = [json.loads(l)['id'] for l in open(os.path.join(here, 'properties.jsonl'))]
checks, na = [], []
for pid in props:
    r = reg.get(pid)
    if r and r.get('claimed'):
        checks.append({
            'property_id': pid, 'engine': 'lean-proof+correspondence',
            'quick_cmd': './check %s --tier quick' % pid,
            'thorough_cmd': './check %s --tier thorough' % pid,
            'replay_cmd_template': './check %s --replay {path}' % pid,
            'evidence_file': 'evidence/%s.json' % pid,
            'level_claimed': {'category': 'proof', 'text': r['text'], 'design_ref': 'DESIGN.md §6 %s' % pid},
            'level_note': r['note'],
            'technique': r.get('technique', 'Lean 4 theorems about a hand-written executable model + differential correspondence check against the real code'),
        })
    else:
        na.append({'property_id': pid, 'reason': (r or {}).get('reason', 'check not built yet in this round (planned: DESIGN.md §6); nothing is claimed for it')})
m = {
    'version': 1,
    'setup_cmd': 'cd lean && lake build',
    'hooks': {'guard': 'ELFI_VERIF',
              'enable': 'none needed: observation by substitution at public seams (DESIGN.md §4.4); no source hook commits',
              'baseline_off_cmd': 'cd /repo && /venv/bin/python -m pytest -ra -q -p no:cacheprovider --timeout=900 --continue-on-collection-errors',
              'source_commits': [], 'add_only': True},
    'engines': [{'name': 'lean-proof+correspondence', 'path': 'lean/ + harness/',
                 'serves_properties': [c['property_id'] for c in checks],
                 'kind_free_text': 'Lean 4 theorems (kernel-checked, axioms audited each run) about hand-written executable models; Python harness runs the real elfi and the Lean driver on the same cases and runs verified checkers / direct oracles on the real outputs'}],
    'checks': checks,
    'not_applicable': na,
    'notes': 'See DESIGN.md. known_findings.json lists genuine defects recorded or fixed. selftest/ and seeded/ hold mutation patches used to validate sensitivity.',
}
json.dump(m, open(os.path.join(here, 'MANIFEST.json'), 'w'), indent=1)
print('claimed:', [c['property_id'] for c in checks])
